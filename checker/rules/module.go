package rules

import (
	"fmt"
	"go/token"
	"sort"
	"strings"

	"dawnverif/checker/core"

	"golang.org/x/tools/go/ssa"
)

func init() { register("C06", false, runC06) }

// lockOrder enumerates, over all module functions, acquisitions of lock class `to` (directly or
// through a static in-module callee) while a lock of class `from` may be held.
type lockEdge struct {
	From, To string
	Fn       *ssa.Function
	Instr    ssa.Instruction
	Held     core.LockKey
	Chain    []string
	Same     bool // same instance path
}

func lockOrder(p *core.Prog) []lockEdge {
	var out []lockEdge
	acq := map[*ssa.Function]map[string][]string{}
	for _, fn := range p.ModuleFuncs() {
		li := p.Locks(fn)
		if len(li.Ops) == 0 {
			continue
		}
		for _, c := range core.Calls(fn) {
			if _, isGo := c.(*ssa.Go); isGo {
				continue
			}
			in := c.(ssa.Instruction)
			held := li.MayHold(in)
			if len(held) == 0 {
				continue
			}
			// direct acquisition
			direct := false
			for _, op := range li.Ops {
				if op.Instr == c && op.Acquire && !op.Defer {
					direct = true
					for _, h := range held {
						out = append(out, lockEdge{From: h.Class, To: op.Key.Class, Fn: fn, Instr: in, Held: h, Chain: []string{fname(fn)}, Same: h.Path == op.Key.Path})
					}
				}
			}
			if direct {
				continue
			}
			if _, isDefer := c.(*ssa.Defer); isDefer {
				continue // runs at exit; handled when the deferred callee itself is analysed with the held-at-return set
			}
			callee := core.Callee(c)
			if callee == nil || !core.InModule(callee) {
				continue
			}
			if _, ok := acq[callee]; !ok {
				acq[callee] = p.AcquiresClass(callee, map[*ssa.Function]bool{})
			}
			for cl, chain := range acq[callee] {
				for _, h := range held {
					out = append(out, lockEdge{From: h.Class, To: cl, Fn: fn, Instr: in, Held: h, Chain: append([]string{fname(fn)}, chain...)})
				}
			}
		}
	}
	return out
}

func runC06(p *core.Prog, r *core.Result) {
	r.Decided = []string{
		"R6.1 no module mutex is acquired (directly or through a callee) while a module mutex is held; lock classes of the package form no order cycle",
		"R6.2 the registry lookup and the insert on its miss edge are one critical section of the project lock; all other registry accesses hold it or are frozen single-threaded phases",
		"R6.3 a loader publishes the module it is about to wait for (or load) before waiting, and clears it by defer",
		"R6.4 wait loop / wake-up discipline of module; data and err are written before loaded is published",
		"R6.5 module code is executed only by (*module).load, which is reached only from the insert branch of the registry",
		"R6.6 the cyclic-dependency error of wait is produced only where the chain walk met the waiter",
		"R6.9 no slot of a bounded resource (send into a channel) is held while a module's code executes, since execution re-enters the loader for nested loads",
		"R6.8 the loading chain is walked (by wait or a helper) only after the waiter has published its own edge: of two loaders closing a cycle concurrently, the later one sees the whole cycle",
		"R6.11 one registry key per module file: where the file a module executes is derived from its label with a default (an empty name means BUILD.dawn), every label that reaches the registry has had the same default applied - otherwise the label as written and the explicit one are two keys for one file, and the file executes twice",
		"R6.10 done ends every wait: the field the wait loop tests is set by done to a constant that makes the loop exit (not to a result value that can be nil for a module that failed before running)",
		"R6.7 the loader that registered a module publishes its result (done) on every exit, including failures before execution",
		"R6.12 no result shared between module loads is memoised under a key that does not determine it: every Store/LoadOrStore on a sync.Map field in package dawn is keyed by everything (and the whole of everything) its value is computed from, and read under the key it is written under - otherwise what a module resolves to depends on which loader filled the cache first (the rule is R10.1's, which is exercised on the resolver's caches on every run; package dawn holds no such cache on the pinned tree)",
		"R6.13 one file, one registry key: the module and target tables are keyed by printed labels, and the file a label names is found through label.Split, which ignores empty elements - so the key determines the file only if labels are canonical: every successful result of label.Clean is the empty string or what its scanner wrote, never the argument handed back unexamined (C12's R12.11; `//lib/` slipping through gives lib/BUILD.dawn two keys and it is executed twice)",
		"R6.14 acyclic graphs always load: in package dawn the error of every fallible label constructor (label.Join, Parse, New, Clean, RelativeTo) is looked at before its result is used - the package walk joins directory names onto package paths, and a name no label can contain (a ':') otherwise yields the empty package, on which the recursive walk crashes (one call exempt by name: loadModule's RelativeTo of two Clean results)",
		"R6.15 a cyclic load fails with the cyclic-dependency error whatever else went wrong: Project.load does not return the error of the first failed module that a range over the module table meets (map iteration is random); the failed modules' errors are collected and returned together",
		"R6.16 loading terminates when helper modules share a Cache: a caller of once() waits for nothing but the cache's mutex, which the filling caller holds from the lookup through the call to the update and releases on every exit (C20's R20.2/R20.3) - a per-key 'ready' signal that the failure path forgets to give leaves every other package that asked for the key blocked for ever",
	}
	r.NotDecided = []string{"termination and deadlock-freedom under every interleaving of the loader goroutines", "equality of the resulting target and flag sets across interleavings"}

	wait := need(p, r, "R6.0", "", "module", "wait")
	done := need(p, r, "R6.0", "", "module", "done")
	load := need(p, r, "R6.0", "", "module", "load")
	setLoading := need(p, r, "R6.0", "", "module", "setLoading")
	loadModule := need(p, r, "R6.0", "", "Project", "loadModule")
	if wait == nil || done == nil || load == nil || setLoading == nil || loadModule == nil {
		return
	}
	modM := core.ClassOf("", "module", "m")
	projM := core.ClassOf("", "Project", "m")

	// R6.1
	edges := lockOrder(p)
	nested := 0
	graph := map[string]map[string]lockEdge{}
	for _, e := range edges {
		if graph[e.From] == nil {
			graph[e.From] = map[string]lockEdge{}
		}
		if _, dup := graph[e.From][e.To]; !dup {
			graph[e.From][e.To] = e
		}
		if e.From == modM && e.To == modM {
			nested++
			kind := "another module's mutex (two loaders walking two chains can deadlock ABBA)"
			if e.Same || len(e.Chain) > 1 {
				kind = "a module mutex (self-deadlock when it is the same module: sync.Mutex is not reentrant)"
			}
			r.Bad("R6.1", fmt.Sprintf("%s#nested-module.m:%s", fname(e.Fn), strings.Join(e.Chain[1:], ">")), p.InstrPos(e.Instr),
				"while %s is held, %s acquires %s via %s", e.Held.Path, fname(e.Fn), kind, strings.Join(e.Chain, " -> "))
		}
	}
	if nested == 0 {
		r.OK("R6.1", "dawn#no-nested-module.m", "-", "no acquisition of a module mutex is reachable while a module mutex is held (%d held->acquired pairs examined)", len(edges))
	}
	// order cycles among lock classes of package dawn (beyond self loops on module.m handled above)
	var classes []string
	for c := range graph {
		classes = append(classes, c)
	}
	sort.Strings(classes)
	cyc := false
	for _, a := range classes {
		for b, e := range graph[a] {
			if a == b {
				if a != modM {
					cyc = true
					r.Bad("R6.1", "dawn#lock-order:"+a+"->"+b, p.InstrPos(e.Instr), "lock class %s acquired while already held (%s)", a, strings.Join(e.Chain, " -> "))
				}
				continue
			}
			if e2, ok := graph[b][a]; ok && (a == modM || a == projM || b == modM || b == projM) && a < b {
				cyc = true
				r.Bad("R6.1", "dawn#lock-order:"+a+"<->"+b, p.InstrPos(e.Instr), "lock order cycle: %s then %s in %s, %s then %s in %s", a, b, fname(e.Fn), b, a, fname(e2.Fn))
			}
		}
	}
	if !cyc {
		r.OK("R6.1", "dawn#lock-order", "-", "no order cycle among lock classes %v", classes)
	}
	for _, fn := range p.ModuleFuncs() {
		if fn.Signature.Recv() != nil && recvNamed(fn) == "module" {
			lockBalanced(p, r, "R6.1", fn)
		}
	}
	lockBalanced(p, r, "R6.1", loadModule)

	// R6.2 registry
	n := guarded(p, r, "R6.2", core.GuardSpec{Rel: "", Type: "Project", Field: "modules", Lock: "m", Exempt: map[string]string{
		"(*dawn.Project).Reload":    "resets the registry before any loader goroutine of the new load exists (single-threaded phase)",
		"(*dawn.Project).load":      "iterates after loadPackage returned, i.e. after the WaitGroup barrier that joins every loader goroutine",
		"(*dawn.Project).saveIndex": "runs after the load barrier, from (*Project).load only",
		"(*dawn.Project).loadIndex": "runs before any loader goroutine is started, from (*Project).load only",
	}})
	r.Floor("R6.2", n, 2, "accesses to Project.modules")
	var lookups []*ssa.Lookup
	var updates []*ssa.MapUpdate
	registryAccesses := func(fn *ssa.Function) {
		lookups, updates = nil, nil
		core.Instrs(fn, func(in ssa.Instruction) {
			switch x := in.(type) {
			case *ssa.Lookup:
				if core.LoadOfField(x.X, pkgRoot, "Project", "modules") && x.CommaOk {
					lookups = append(lookups, x)
				}
			case *ssa.MapUpdate:
				if core.LoadOfField(x.Map, pkgRoot, "Project", "modules") {
					updates = append(updates, x)
				}
			}
		})
	}
	// the check-or-insert lives in loadModule or in a helper that only loadModule calls
	regFn := loadModule
	var regCall *ssa.Call
	registryAccesses(regFn)
	if len(updates) == 0 {
		for _, c := range core.Calls(loadModule) {
			call, isCall := c.(*ssa.Call)
			h := core.Callee(c)
			if !isCall || h == nil || h.Pkg != loadModule.Pkg || h.Blocks == nil {
				continue
			}
			registryAccesses(h)
			if len(updates) > 0 {
				only := len(p.FuncValueUses(h)) == 0
				for _, cc := range p.StaticCallers(h) {
					if cc.Parent() != loadModule {
						only = false
					}
				}
				r.Check(only, "R6.2", fname(h)+"#only-from-loadModule", p.InstrPos(call), "the check-or-insert helper is called by loadModule only", "the check-or-insert helper is also called from elsewhere: a module can be registered by a caller that does not load it")
				regFn, regCall = h, call
				break
			}
		}
		if regFn == loadModule {
			registryAccesses(regFn)
		}
	}
	li := p.Locks(regFn)
	r.Floor("R6.2", len(updates), 1, "inserts into Project.modules in loadModule")
	for _, mu := range updates {
		ok := false
		for _, lk := range lookups {
			if !core.Dominates(lk, mu) || !core.SameKey(lk.Index, mu.Key) {
				continue
			}
			miss := p.FactsAt(mu).Find(func(c ssa.Value, v bool) bool {
				e, ok := c.(*ssa.Extract)
				return ok && e.Index == 1 && e.Tuple == ssa.Value(lk) && !v
			})
			split := false
			for _, op := range li.Ops {
				if !op.Acquire && !op.Defer && op.Key.Class == projM {
					u := op.Instr.(ssa.Instruction)
					if core.InstrReaches(lk, u) && core.InstrReaches(u, mu) {
						split = true
					}
				}
			}
			if miss && !split && li.MustHoldClass(lk, projM, core.ModeW) && li.MustHoldClass(mu, projM, core.ModeW) {
				ok = true
			}
		}
		r.Check(ok, "R6.2", "dawn.(*Project).loadModule#check-or-insert", p.InstrPos(mu), "the insert is on the miss edge of a lookup of the same key in the same critical section of Project.m", "the registry insert is not atomic with the lookup of the same key: two loaders can both insert (and execute) one module")
	}
	// other inserts anywhere
	for _, fn := range p.ModuleFuncs() {
		if fn == regFn {
			continue
		}
		core.Instrs(fn, func(in ssa.Instruction) {
			if mu, ok := in.(*ssa.MapUpdate); ok && core.LoadOfField(mu.Map, pkgRoot, "Project", "modules") {
				r.Bad("R6.2", fname(fn)+"#modules-insert", p.InstrPos(mu), "a module is registered outside loadModule's check-or-insert")
			}
		})
	}

	// R6.3 edge before wait
	waiterP := loadModule.Params[1]
	nW := 0
	for _, c := range core.Calls(loadModule) {
		cal := core.Callee(c)
		if cal != wait && cal != load {
			continue
		}
		nW++
		ci := c.(ssa.Instruction)
		target := c.Common().Args[0]
		construct := "dawn.(*Project).loadModule#edge-before-" + cal.Name()
		// find `waiter != nil` test dominating the call
		okPub, okClr := false, false
		for _, b := range loadModule.Blocks {
			iff, ok := b.Instrs[len(b.Instrs)-1].(*ssa.If)
			if !ok || b == ci.Block() || !b.Dominates(ci.Block()) {
				continue
			}
			cmp, ok := iff.Cond.(*ssa.BinOp)
			if !ok || !((cmp.X == ssa.Value(waiterP) && core.IsNilConst(cmp.Y)) || (cmp.Y == ssa.Value(waiterP) && core.IsNilConst(cmp.X))) {
				continue
			}
			nonNilSucc := b.Succs[0]
			if cmp.Op == token.EQL {
				nonNilSucc = b.Succs[1]
			} else if cmp.Op != token.NEQ {
				continue
			}
			isPub := func(x ssa.Instruction) bool {
				cc, ok := x.(*ssa.Call)
				return ok && core.Callee(cc) == setLoading && cc.Call.Args[0] == ssa.Value(waiterP) && cc.Call.Args[1] == target
			}
			isClr := func(x ssa.Instruction) bool {
				d, ok := x.(*ssa.Defer)
				return ok && core.Callee(d) == setLoading && d.Call.Args[0] == ssa.Value(waiterP) && core.IsNilConst(d.Call.Args[1])
			}
			if !core.BlockReachesAvoiding(nonNilSucc, ci, func(ssa.Instruction) bool { return false }) {
				continue // the call is not on the waiter != nil side of this test
			}
			if !core.BlockReachesAvoiding(nonNilSucc, ci, isPub) {
				okPub = true
			}
			if !core.BlockReachesAvoiding(nonNilSucc, ci, isClr) {
				okClr = true
			}
		}
		r.Check(okPub, "R6.3", construct, p.InstrPos(ci), "whenever there is a waiter, waiter.setLoading(m) precedes m."+cal.Name()+" on every path", "a waiter reaches m."+cal.Name()+" without having published that it is loading m: a load cycle through this edge is invisible to the chain walk and hangs")
		r.Check(okClr, "R6.3", construct+":clear", p.InstrPos(ci), "the edge is cleared by a deferred setLoading(nil) registered before the wait", "the loading edge is not cleared by defer: stale edges produce false cyclic-dependency errors")
	}
	r.Floor("R6.3", nW, 1, "wait/load calls in loadModule")

	// R6.4 wait/wake
	waits := findWaits(p, r, "R6.4")
	r.Floor("R6.4", len(waits), 1, "sync.Cond.Wait call sites in the module")
	nw := checkWakes(p, r, "R6.4", waits, pkgRoot, "module")
	r.Floor("R6.4", nw, 1, "stores to module.loaded")
	// publication order in done: the completion state (what the wait loop tests) is stored after the results, or in
	// the same critical section as them
	tested := map[string]bool{}
	for _, ws := range waits {
		if ws.Fn == wait {
			for _, f := range ws.Fields {
				tested[f] = true
			}
		}
	}
	var complStores, dataStores []*ssa.Store
	doneFam := family(p, done)
	for h := range doneFam {
		if h != done {
			// a helper only done calls: what holds at its call site holds inside it
			if cs := p.StaticCallers(h); len(cs) == 1 {
				p.SetContext(h, cs[0].(ssa.Instruction))
			}
		}
		core.Instrs(h, func(in ssa.Instruction) {
			if st, ok := in.(*ssa.Store); ok {
				if owner, fld := core.FieldOf(st.Addr); owner != nil && owner.Obj().Name() == "module" {
					if tested[fld] {
						complStores = append(complStores, st)
					}
					if fld == "data" || fld == "err" {
						dataStores = append(dataStores, st)
					}
				}
			}
		})
	}
	doneLocks := p.Locks(done)
	okPub := len(complStores) > 0 && len(dataStores) >= 2
	for _, ds := range dataStores {
		one := false
		for _, cs := range complStores {
			if ds == cs || p.DominatesX(ds, cs) {
				one = true
			}
			if ds.Parent() == done && cs.Parent() == done && ds.Block() == cs.Block() && doneLocks.MustHoldClass(ds, modM, core.ModeW) && doneLocks.MustHoldClass(cs, modM, core.ModeW) {
				one = true
			}
		}
		if !one {
			okPub = false
		}
	}
	r.Check(okPub, "R6.4", "dawn.(*module).done#publication-order", p.Pos(done.Pos()), "data and err are stored before (or in the same critical section as) the completion state the wait loop tests", "completion can be observed before data/err are written: waiters read stale results")
	// R6.10 done ends the wait: the state the wait loop of (*module).wait tests is set by done to a value that makes
	// the loop exit whatever done's arguments are (a completion flag set to a constant; not a result value that may
	// be nil for a module that failed before it ran)
	nEnd := 0
	for _, ws := range waits {
		if ws.Fn != wait || ws.Header == nil {
			continue
		}
		iff := ws.Header.Instrs[len(ws.Header.Instrs)-1].(*ssa.If)
		waitOnTrue := core.Reaches(ws.Header.Succs[0], ws.Call.(ssa.Instruction).Block(), true)
		var famInstrs []ssa.Instruction
		for h := range doneFam {
			core.Instrs(h, func(in ssa.Instruction) { famInstrs = append(famInstrs, in) })
		}
		sort.Slice(famInstrs, func(i, j int) bool { return famInstrs[i].Pos() < famInstrs[j].Pos() })
		visitDone := func(in ssa.Instruction) {
			st, ok := in.(*ssa.Store)
			if !ok {
				return
			}
			owner, fld := core.FieldOf(st.Addr)
			if owner == nil || owner.Obj().Name() != "module" {
				return
			}
			tested := false
			for _, f := range ws.Fields {
				if f == fld {
					tested = true
				}
			}
			if !tested {
				return
			}
			nEnd++
			// evaluate the loop test with the field replaced by the stored value: 1 true, 0 false, -1 unknown
			isField := func(v ssa.Value) bool { return core.LoadOfField(v, pkgRoot, "module", fld) }
			nonNil := func(v ssa.Value) bool {
				switch core.Unwrap(v).(type) {
				case *ssa.Alloc, *ssa.MakeMap, *ssa.MakeSlice, *ssa.MakeInterface, *ssa.MakeClosure, *ssa.MakeChan:
					return true
				}
				return false
			}
			var eval func(c ssa.Value) int
			eval = func(c ssa.Value) int {
				switch x := c.(type) {
				case *ssa.UnOp:
					if x.Op == token.NOT {
						if v := eval(x.X); v >= 0 {
							return 1 - v
						}
						return -1
					}
					if isField(x) {
						if b, ok := core.ConstBool(st.Val); ok {
							if b {
								return 1
							}
							return 0
						}
					}
				case *ssa.BinOp:
					if x.Op != token.EQL && x.Op != token.NEQ {
						return -1
					}
					for _, pr := range [][2]ssa.Value{{x.X, x.Y}, {x.Y, x.X}} {
						if !isField(pr[0]) {
							continue
						}
						eq := -1
						if core.IsNilConst(pr[1]) {
							if core.IsNilConst(st.Val) {
								eq = 1
							} else if nonNil(st.Val) {
								eq = 0
							}
						} else if k, ok := core.ConstInt(pr[1]); ok {
							if kv, ok := core.ConstInt(st.Val); ok {
								eq = 0
								if k == kv {
									eq = 1
								}
							}
						} else if kb, ok := core.ConstBool(pr[1]); ok {
							if vb, ok := core.ConstBool(st.Val); ok {
								eq = 0
								if kb == vb {
									eq = 1
								}
							}
						}
						if eq < 0 {
							return -1
						}
						if x.Op == token.NEQ {
							return 1 - eq
						}
						return eq
					}
				}
				return -1
			}
			v := eval(iff.Cond)
			ends := v >= 0 && (v == 1) != waitOnTrue
			r.Check(ends, "R6.10", fmt.Sprintf("dawn.(*module).done#ends-wait:%s", fld), p.InstrPos(st), "done sets module."+fld+" to a value that makes the wait loop exit, whatever its arguments", "the wait loop tests module."+fld+", and done stores a value there that does not always end the loop (a result that is nil for a module that failed before it ran: a missing file, a syntax error): every other loader of that module then sleeps for ever and Load hangs")
		}
		for _, in := range famInstrs {
			visitDone(in)
		}
	}
	r.Floor("R6.10", nEnd, 1, "stores in done to the state the wait loop tests")
	// R6.11 the registry key determines the file
	checkRegistryKeyCanonical(p, r, loadModule)

	checkCleanResultsFromScanner(p, r, "R6.13")
	checkLabelErrorsNotDropped(p, r, "R6.14")
	checkModuleErrorsNotPickedAtRandom(p, r, "R6.15")
	r.Floor("R6.16", importObligations(p, r, runC20, "C20", map[string]bool{"R20.2": true, "R20.3": true}, "R6.16"), 2, "obligations on the critical section of Cache.once")

	// ---- R6.12 caches shared between loaders
	nDawnCaches := checkSyncMapCaches(p, r, "R6.12", pkgRoot, "")
	nres := checkSyncMapCaches(p, core.NewResult("scratch"), "R6.12", pkgMvs, "Resolver")
	r.Check(nres >= 1, "R6.12", "rule-exercised", "-", fmt.Sprintf("%d sync.Map cache store(s) in package dawn checked; the rule matched %d store(s) of the resolver's caches (positive control)", nDawnCaches, nres), "the cache-key rule matches nothing any more, not even the resolver's caches: it would pass vacuously")
	// data/err are only written in done (and read in wait after the loop)
	for _, fn := range p.ModuleFuncs() {
		core.Instrs(fn, func(in ssa.Instruction) {
			if st, ok := in.(*ssa.Store); ok && !doneFam[fn] {
				if core.IsField(st.Addr, pkgRoot, "module", "data") || core.IsField(st.Addr, pkgRoot, "module", "loaded") {
					if _, fresh := core.Unwrap(st.Addr.(*ssa.FieldAddr).X).(*ssa.Alloc); !fresh {
						r.Bad("R6.4", fname(fn)+"#writes-module-result", p.InstrPos(st), "module result state is written outside (*module).done")
					}
				}
			}
		})
	}

	// R6.7 the loader that registered a module marks it loaded on every exit (otherwise later waiters sleep forever)
	loadFam := family(p, load)
	var callsDoneAlways func(h *ssa.Function, depth int) bool
	callsDoneAlways = func(h *ssa.Function, depth int) bool {
		if h == nil || !loadFam[h] || h == load || depth > 2 {
			return false
		}
		isD := func(x ssa.Instruction) bool {
			c, ok := x.(*ssa.Call)
			if !ok {
				return false
			}
			return core.Callee(c) == done && len(c.Call.Args) > 0 && c.Call.Args[0] == ssa.Value(h.Params[0]) || callsDoneAlways(core.Callee(c), depth+1)
		}
		for _, ret := range core.ReturnsOf(h) {
			if core.BlockReachesAvoiding(h.Blocks[0], ret, isD) {
				return false
			}
		}
		return len(core.ReturnsOf(h)) > 0
	}
	for i, ret := range core.ReturnsOf(load) {
		isDone := func(x ssa.Instruction) bool {
			c, ok := x.(*ssa.Call)
			if !ok {
				return false
			}
			if core.Callee(c) == done && len(c.Call.Args) > 0 && c.Call.Args[0] == ssa.Value(load.Params[0]) {
				return true
			}
			// a helper of load that publishes the result on every path, called on the module being loaded
			return len(c.Call.Args) > 0 && c.Call.Args[0] == ssa.Value(load.Params[0]) && callsDoneAlways(core.Callee(c), 0)
		}
		skipped := core.BlockReachesAvoiding(load.Blocks[0], ret, isDone)
		r.Check(!skipped, "R6.7", fmt.Sprintf("dawn.(*module).load#done-on-every-exit:return-%d", i+1), p.InstrPos(ret), "this exit is reached only after m.done(...) published the result", "this exit returns without calling m.done: the module stays registered but never becomes loaded, so every other module that loads it waits forever (Load hangs)")
	}

	// R6.5 once-only execution
	nExec := 0
	for _, fn := range p.ModuleFuncs() {
		for _, c := range core.Calls(fn) {
			if core.IsCallTo(c, pkgStar, "ExecFile") || core.IsCallTo(c, pkgStar, "ExecFileOptions") {
				nExec++
				inRoot := fn.Pkg != nil && fn.Pkg.Pkg.Path() == pkgRoot
				if !inRoot {
					continue // other packages (cmd/dawn REPL etc.) do not load project modules
				}
				r.Check(loadFam[fn], "R6.5", fname(fn)+"#ExecFile", p.InstrPos(c.(ssa.Instruction)), "module code is executed by (*module).load (or a helper only it calls)", "module code is executed outside (*module).load: the once-only registry is bypassed")
			}
		}
	}
	r.Floor("R6.5", nExec, 1, "starlark.ExecFile call sites")
	if u := p.FuncValueUses(load); len(u) > 0 {
		r.Bad("R6.5", "dawn.(*module).load#value-use", p.InstrPos(u[0]), "load escapes as a function value")
	}
	nl := 0
	for _, c := range p.StaticCallers(load) {
		nl++
		ci := c.(ssa.Instruction)
		ok := c.Parent() == loadModule
		if ok {
			ok = false
			recv := p.ResolvePhiAt(c.Common().Args[0], ci)
			for _, mu := range updates {
				if regCall == nil && p.DominatesModuloFacts(mu, ci) && mu.Value == recv {
					ok = true
				}
			}
			// through the check-or-insert helper: the receiver is a result of the helper, and every return of the
			// helper that does not hand out the module it has just inserted is excluded by what is known at the call
			if ex, isEx := recv.(*ssa.Extract); isEx && regCall != nil && ex.Tuple == ssa.Value(regCall) {
				ok = true
				for _, ret := range core.ReturnsOf(regFn) {
					vals := core.RetVals(ret)
					inserting := false
					for _, mu := range updates {
						if ex.Index < len(vals) && (vals[ex.Index] == mu.Value || cellValue(vals[ex.Index]) == cellValue(mu.Value)) && core.Dominates(mu, ret) {
							inserting = true
						}
					}
					if inserting {
						continue
					}
					excluded := false
					for j, v := range vals {
						bv, isConst := core.ConstBool(v)
						res := extractOf(regCall, j)
						if isConst && res != nil && holds(p, ci, !bv, func(x ssa.Value) bool { return x == res }) {
							excluded = true
						}
					}
					if !excluded {
						ok = false
					}
				}
			}
		}
		r.Check(ok, "R6.5", "dawn.(*module).load#caller:"+fname(c.Parent()), p.InstrPos(ci), "load is called on the module that this call path has just inserted into the registry", "load is called on a module that this path did not insert: a module file can execute more than once")
	}
	r.Floor("R6.5", nl, 1, "callers of (*module).load")

	// R6.6 cyclic error only on loading == waiter. The fresh error is fabricated in wait (which then has a waiter
	// parameter) or, when the chain walk lives in a helper called by loadModule, in loadModule itself.
	nc := 0
	var walkFn *ssa.Function
	var walkParam *ssa.Parameter
	type site struct {
		fn *ssa.Function
		wp *ssa.Parameter
	}
	var sites []site
	if len(wait.Params) > 1 {
		sites = append(sites, site{wait, wait.Params[1]})
	}
	sites = append(sites, site{loadModule, loadModule.Params[1]})
	for _, st := range sites {
		for _, ret := range core.ReturnsOf(st.fn) {
			vals := core.RetVals(ret)
			if len(vals) != 2 {
				continue
			}
			if _, isCall := vals[1].(*ssa.Call); !isCall {
				continue
			}
			wf, wprm, ok := cyclicFact(p, ret, st.wp)
			if st.fn == loadModule {
				// loadModule has other fresh errors; the cyclic one is the one decided by a chain-walk helper
				if !ok {
					continue
				}
			}
			nc++
			if ok {
				walkFn, walkParam = wf, wprm
			}
			r.Check(ok, "R6.6", fname(st.fn)+"#cyclic-error", p.InstrPos(ret), "the fresh error is returned only where a module on the loading chain is the waiter itself", "a cyclic-dependency error is fabricated without the chain having reached the waiter: acyclic load graphs can fail")
		}
	}
	r.Floor("R6.6", nc, 1, "fresh cyclic-error returns (wait / loadModule)")
	// the chain walk advances: the loop variable is reassigned from getLoading of the *current* chain element
	if walkFn != nil {
		checkChainWalk(p, r, walkFn, walkParam)
	} else {
		r.Unk("R6.6", "dawn#chain-walk", "-", "no chain walk that decides the cyclic-dependency error was found")
	}

	// R6.9 nothing that can run out is held while a module's code executes: executing a module loads further
	// modules on the same goroutine (Thread.Load -> loadModule), so a slot of a bounded resource (a send into a
	// buffered channel used as a semaphore) taken before ExecFile is needed again, re-entrantly, by every nested load
	nSend := 0
	reentrant := func(c ssa.CallInstruction) bool {
		if core.IsCallTo(c, pkgStar, "ExecFile") || core.IsCallTo(c, pkgStar, "ExecFileOptions") {
			return true
		}
		cal := core.Callee(c)
		if cal == nil || !core.InModule(cal) {
			return false
		}
		if cal == loadModule || cal == load {
			return true
		}
		return false
	}
	for f := range staticClosure(p, loadModule) {
		if f.Pkg != loadModule.Pkg {
			continue
		}
		core.Instrs(f, func(in ssa.Instruction) {
			snd, ok := in.(*ssa.Send)
			if !ok {
				return
			}
			nSend++
			// released before the re-entrant call on every path? (a receive from the same channel; a deferred
			// receive only runs at return)
			isRelease := func(x ssa.Instruction) bool {
				u, ok := x.(*ssa.UnOp)
				return ok && u.Op == token.ARROW && core.SameKey(u.X, snd.Chan)
			}
			held := false
			var at ssa.Instruction
			for _, c := range core.Calls(f) {
				if _, isDefer := c.(*ssa.Defer); isDefer {
					continue
				}
				ci := c.(ssa.Instruction)
				if reentrant(c) && core.ReachesAvoiding(snd, ci, isRelease) {
					held, at = true, ci
				}
			}
			construct := fmt.Sprintf("%s#holds-slot-across-load-%d", fname(f), nSend)
			if held {
				r.Bad("R6.9", construct, p.InstrPos(snd), "a slot is taken from a bounded channel here and still held at %s, where the module's code runs and loads further modules that take a slot themselves: once every slot is held by a module that waits for a nested load, Load hangs on an acyclic graph", p.InstrPos(at))
			} else {
				r.OK("R6.9", construct, p.InstrPos(snd), "the channel operation is not held across the execution of module code")
			}
		})
	}
	if nSend == 0 {
		r.OK("R6.9", "dawn.(*Project).loadModule#no-bounded-resource", p.Pos(loadModule.Pos()), "the module-loading path performs no channel send: nothing bounded is held while module code executes")
	}

	// R6.8 the chain walk runs after the waiter has published its own edge (the loader that closes a cycle last
	// must be able to see the whole cycle; checking first lets two loaders both pass and then both wait)
	getLoading := p.Func("", "module", "getLoading")
	walks := func(f *ssa.Function) bool {
		for g := range staticClosure(p, f) {
			if g == getLoading {
				continue
			}
			for _, c := range core.Calls(g) {
				if core.Callee(c) == getLoading {
					return true
				}
			}
		}
		return false
	}
	nWalk := 0
	if getLoading == nil {
		r.Unk("R6.8", "anchor:dawn.(*module).getLoading", "-", "not found")
	} else {
		for _, c := range core.Calls(loadModule) {
			cal := core.Callee(c)
			if cal == nil || cal == getLoading || cal.Pkg != loadModule.Pkg || cal.Blocks == nil || len(c.Common().Args) == 0 || !walks(cal) {
				continue
			}
			ci := c.(ssa.Instruction)
			target := c.Common().Args[0]
			nWalk++
			okPub := false
			for _, b := range loadModule.Blocks {
				iff, ok := b.Instrs[len(b.Instrs)-1].(*ssa.If)
				if !ok || b == ci.Block() || !b.Dominates(ci.Block()) {
					continue
				}
				cmp, ok := iff.Cond.(*ssa.BinOp)
				if !ok || !((cmp.X == ssa.Value(waiterP) && core.IsNilConst(cmp.Y)) || (cmp.Y == ssa.Value(waiterP) && core.IsNilConst(cmp.X))) {
					continue
				}
				nonNilSucc := b.Succs[0]
				if cmp.Op == token.EQL {
					nonNilSucc = b.Succs[1]
				} else if cmp.Op != token.NEQ {
					continue
				}
				isPub := func(x ssa.Instruction) bool {
					cc, ok := x.(*ssa.Call)
					return ok && core.Callee(cc) == setLoading && cc.Call.Args[0] == ssa.Value(waiterP) && cc.Call.Args[1] == target
				}
				if !core.BlockReachesAvoiding(nonNilSucc, ci, func(ssa.Instruction) bool { return false }) {
					continue
				}
				if !core.BlockReachesAvoiding(nonNilSucc, ci, isPub) {
					okPub = true
				}
			}
			r.Check(okPub, "R6.8", "dawn.(*Project).loadModule#walk-after-publish:"+cal.Name(), p.InstrPos(ci), "the loading chain is walked only after the waiter published its own edge", "the loading chain of m is walked before waiter.setLoading(m): two loaders that close a cycle at the same time both find no cycle, both register and both wait forever (Load hangs instead of reporting the cycle)")
		}
	}
	r.Floor("R6.8", nWalk, 1, "chain-walk call sites in loadModule")
}

// cyclicFact: at ret, a must-fact says that the loading chain reached the waiter wp: either a direct comparison,
// or a true result of a helper all of whose `return true` are under "chain element == its waiter parameter".
// Returns the function containing the walk and its waiter parameter.
func cyclicFact(p *core.Prog, ret ssa.Instruction, wp *ssa.Parameter) (*ssa.Function, *ssa.Parameter, bool) {
	walkFn, walkParam := ret.Parent(), wp
	ok := p.FactsAt(ret).Find(func(c ssa.Value, v bool) bool {
		if reachedParam(c, v, wp) {
			return true
		}
		call, isCall := c.(*ssa.Call)
		if !isCall || !v {
			return false
		}
		h := core.Callee(call)
		if h == nil || !core.InModule(h) || h.Blocks == nil {
			return false
		}
		for i, a := range call.Call.Args {
			if a != ssa.Value(wp) || i >= len(h.Params) {
				continue
			}
			hp := h.Params[i]
			all, some := true, false
			for _, hr := range core.ReturnsOf(h) {
				hv := core.RetVals(hr)
				if len(hv) != 1 {
					all = false
					continue
				}
				if b, isConst := core.ConstBool(hv[0]); isConst {
					if !b {
						continue
					}
					some = true
					if !p.FactsAt(hr).Find(func(c2 ssa.Value, v2 bool) bool { return reachedParam(c2, v2, hp) }) {
						all = false
					}
				} else {
					all = false
				}
			}
			if all && some {
				walkFn, walkParam = h, hp
				return true
			}
		}
		return false
	})
	return walkFn, walkParam, ok
}

// reachedParam: the condition `x == prm` (x not nil) has value v == true, or `x != prm` false.
func reachedParam(c ssa.Value, v bool, prm *ssa.Parameter) bool {
	b, okb := c.(*ssa.BinOp)
	if !okb || (b.Op != token.EQL && b.Op != token.NEQ) {
		return false
	}
	if b.X == ssa.Value(prm) || b.Y == ssa.Value(prm) {
		other := b.X
		if other == ssa.Value(prm) {
			other = b.Y
		}
		if core.IsNilConst(other) {
			return false
		}
		return (b.Op == token.EQL) == v
	}
	return false
}

// checkChainWalk: in wait, the phi that is compared with the waiter must be fed, on its back edge, by the
// loading edge of the phi's own current value (x = x.loading), not by a loop-invariant value.
func checkChainWalk(p *core.Prog, r *core.Result, wait *ssa.Function, wp *ssa.Parameter) {
	var phi *ssa.Phi
	core.Instrs(wait, func(in ssa.Instruction) {
		b, ok := in.(*ssa.BinOp)
		if !ok || (b.Op != token.EQL && b.Op != token.NEQ) {
			return
		}
		for _, pr := range [][2]ssa.Value{{b.X, b.Y}, {b.Y, b.X}} {
			if pr[1] == ssa.Value(wp) {
				if ph, ok := pr[0].(*ssa.Phi); ok {
					phi = ph
				}
			}
		}
	})
	construct := "dawn.(*module).wait#chain-walk"
	if phi == nil {
		r.Unk("R6.6", construct, p.Pos(wait.Pos()), "no loop variable compared with the waiter found")
		return
	}
	adv := false
	for _, e := range phi.Edges {
		if e == ssa.Value(phi) {
			continue
		}
		// e depends on phi through a read of .loading (directly or via getLoading)
		dep := core.DependsOn(e, core.SliceOpts{ThroughCall: func(c *ssa.Call) bool { return true }}, func(v ssa.Value) bool { return v == ssa.Value(phi) })
		if dep {
			adv = true
		}
	}
	r.Check(adv, "R6.6", construct, p.InstrPos(phi), "the chain walk advances from the current element (x = x.loading)", "the chain walk never advances beyond the first edge (the loop variable is refreshed from a loop-invariant module): cycles of length >= 3 are not detected and the walk spins or hangs")
}

// onlyCalledFrom: h is a function of the package that is called (statically, never used as a value) only from the
// functions in owners: it is part of them.
func onlyCalledFrom(p *core.Prog, h *ssa.Function, owners map[*ssa.Function]bool) bool {
	if h == nil || h.Blocks == nil || len(p.FuncValueUses(h)) > 0 {
		return false
	}
	callers := p.StaticCallers(h)
	if len(callers) == 0 {
		return false
	}
	for _, c := range callers {
		if !owners[c.Parent()] {
			return false
		}
	}
	return true
}

// family: fn together with the helpers of its package that only it (or such helpers) call.
func family(p *core.Prog, fn *ssa.Function) map[*ssa.Function]bool {
	fam := map[*ssa.Function]bool{fn: true}
	for changed := true; changed; {
		changed = false
		for f := range fam {
			for _, c := range core.Calls(f) {
				h := core.Callee(c)
				if h == nil || fam[h] || h.Pkg != fn.Pkg {
					continue
				}
				if onlyCalledFrom(p, h, fam) {
					fam[h] = true
					changed = true
				}
			}
		}
	}
	return fam
}

// checkRegistryKeyCanonical implements R6.11.
func checkRegistryKeyCanonical(p *core.Prog, r *core.Result, loadModule *ssa.Function) {
	fetch := need(p, r, "R6.11", "", "Project", "fetchModule")
	if fetch == nil {
		return
	}
	isNameLoad := func(v ssa.Value) (ssa.Value, bool) {
		u, ok := v.(*ssa.UnOp)
		if !ok || u.Op != token.MUL {
			return nil, false
		}
		fa, ok := u.X.(*ssa.FieldAddr)
		if !ok || !core.IsField(fa, pkgLabel, "Label", "Name") {
			return nil, false
		}
		return fa.X, true
	}
	emptyTest := func(f *ssa.Function) []*ssa.If {
		var out []*ssa.If
		for _, b := range f.Blocks {
			iff, ok := b.Instrs[len(b.Instrs)-1].(*ssa.If)
			if !ok {
				continue
			}
			bo, ok := iff.Cond.(*ssa.BinOp)
			if !ok || (bo.Op != token.EQL && bo.Op != token.NEQ) {
				continue
			}
			for _, pr := range [][2]ssa.Value{{bo.X, bo.Y}, {bo.Y, bo.X}} {
				if _, isName := isNameLoad(pr[0]); isName {
					if s, ok := core.ConstString(pr[1]); ok && s == "" {
						out = append(out, iff)
					}
				}
			}
		}
		return out
	}
	defaults := emptyTest(fetch)
	if len(defaults) == 0 {
		r.OK("R6.11", "dawn.(*Project).fetchModule#no-default", p.Pos(fetch.Pos()), "the file of a module is named by the components of its label as they are: distinct keys name distinct files")
		return
	}
	// which constant stands in for the empty name?
	def := ""
	core.Instrs(fetch, func(in ssa.Instruction) {
		if ph, ok := in.(*ssa.Phi); ok {
			for _, e := range ph.Edges {
				if s, ok := core.ConstString(e); ok && s != "" {
					def = s
				}
			}
		}
	})
	n := 0
	for _, c := range p.StaticCallers(loadModule) {
		n++
		ci := c.(ssa.Instruction)
		f := ci.Parent()
		arg := c.Common().Args[len(c.Common().Args)-1]
		construct := "dawn.(*Project).loadModule#key-from:" + fname(f)
		// (a) a literal with a non-empty constant name
		if al, ok := core.Unwrap(arg).(*ssa.Alloc); ok {
			okLit, nStores := false, 0
			for _, g := range core.WithAnons(core.Outer(al.Parent())) {
				core.Instrs(g, func(in ssa.Instruction) {
					st, ok := in.(*ssa.Store)
					if !ok {
						return
					}
					fa, ok := st.Addr.(*ssa.FieldAddr)
					if !ok || core.Unwrap(fa.X) != ssa.Value(al) || !core.IsField(fa, pkgLabel, "Label", "Name") {
						return
					}
					nStores++
					if s, ok := core.ConstString(st.Val); ok && s != "" {
						okLit = true
					}
				})
			}
			r.Check(okLit && nStores == 1, "R6.11", construct, p.InstrPos(ci), "the key is a label literal with an explicit file name", "the key is a label literal without an explicit file name, while fetchModule reads an empty name as "+def)
			continue
		}
		// (b) the empty-name case is replaced by the default before the registry is consulted
		normalised := func(f *ssa.Function, arg ssa.Value, ci ssa.Instruction) bool {
			okNorm := false
			for _, iff := range emptyTest(f) {
				bo := iff.Cond.(*ssa.BinOp)
				base, _ := isNameLoad(bo.X)
				if base == nil {
					base, _ = isNameLoad(bo.Y)
				}
				if base != arg || !iff.Block().Dominates(ci.Block()) {
					continue
				}
				emptySucc := iff.Block().Succs[0]
				if bo.Op == token.NEQ {
					emptySucc = iff.Block().Succs[1]
				}
				isFix := func(in ssa.Instruction) bool {
					st, ok := in.(*ssa.Store)
					if !ok {
						return false
					}
					fa, ok := st.Addr.(*ssa.FieldAddr)
					if !ok || fa.X != arg || !core.IsField(fa, pkgLabel, "Label", "Name") {
						return false
					}
					s, ok := core.ConstString(st.Val)
					return ok && s != "" && (def == "" || s == def)
				}
				if !core.BlockReachesAvoiding(emptySucc, ci, isFix) {
					okNorm = true
				}
			}
			return okNorm
		}
		okNorm := normalised(f, arg, ci)
		if !okNorm {
			// (c) the label comes from a resolving helper (resolveModuleLabel(raw)) every successful return of which
			// hands out a label normalised in that way
			var hc *ssa.Call
			switch x := core.Unwrap(arg).(type) {
			case *ssa.Extract:
				hc, _ = x.Tuple.(*ssa.Call)
			case *ssa.Call:
				hc = x
			}
			if hc != nil {
				if h := core.Callee(hc); h != nil && core.InModule(h) && h.Blocks != nil {
					all, some := true, false
					for _, hr := range core.ReturnsOf(h) {
						hv := core.RetVals(hr)
						if len(hv) == 0 || core.IsNilConst(hv[0]) {
							continue
						}
						some = true
						if !normalised(h, hv[0], hr) {
							all = false
						}
					}
					okNorm = all && some
				}
			}
		}
		r.Check(okNorm, "R6.11", construct, p.InstrPos(ci), "an empty file name is replaced by "+def+" before the registry is consulted: the key names the file", "a label with an empty file name reaches the registry as it was written, while fetchModule reads an empty name as "+def+": load(\"//pkg\", …) and the package loader's //pkg:"+def+" are two registry keys for one file, which is executed twice (a package that declares targets then fails to load with 'duplicate target'; module-level code runs twice)")
	}
	r.Floor("R6.11", n, 2, "callers of (*Project).loadModule")
}

// cellValue: for a load of a local cell (a named result spilled because of a defer), the value most recently stored into
// the cell in the same block before the load; v itself otherwise.
func cellValue(v ssa.Value) ssa.Value {
	ld, ok := v.(*ssa.UnOp)
	if !ok || ld.Op != token.MUL {
		return v
	}
	cell, ok := ld.X.(*ssa.Alloc)
	if !ok {
		return v
	}
	var last ssa.Value
	for _, in := range ld.Block().Instrs {
		if in == ssa.Instruction(ld) {
			break
		}
		if st, isSt := in.(*ssa.Store); isSt && st.Addr == ssa.Value(cell) {
			last = st.Val
		}
	}
	if last != nil {
		return last
	}
	return v
}

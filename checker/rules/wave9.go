package rules

import (
	"fmt"
	"go/token"
	"go/types"
	"sort"
	"strings"

	"dawnverif/checker/core"

	"golang.org/x/tools/go/ssa"
)

var _ = fmt.Sprintf
var _ = token.ADD
var _ = types.Typ
var _ = sort.Strings
var _ = strings.HasPrefix
var _ ssa.Value

// importObligations runs the rule set of another property on a scratch result and copies the obligations of the named
// rules under the own rule id (the two properties then cannot drift apart). It returns the number of obligations copied.
func importObligations(p *core.Prog, r *core.Result, run func(*core.Prog, *core.Result), from string, rules map[string]bool, as string) int {
	sub := core.NewResult(from)
	run(p, sub)
	n := 0
	for _, o := range sub.Obls {
		if !rules[o.Rule] || strings.HasPrefix(o.Construct, "rule#") || strings.HasPrefix(o.Construct, "floor:") {
			continue
		}
		n++
		switch o.Status {
		case core.Discharged:
			r.OK(as, o.Construct, o.Pos, "%s", o.Detail)
		case core.Violated:
			r.Bad(as, o.Construct, o.Pos, "%s", o.Detail)
		case core.Undecided:
			r.Unk(as, o.Construct, o.Pos, "%s", o.Detail)
		}
	}
	return n
}

// checkSumsIgnoreTimes (R2.12): a content sum is a function of names and contents. Nothing that is fed into the hash of
// a source (fileSum, dirSum and what they call) is computed from a modification time or another attribute that changes
// without the contents: fs.FormatFileInfo (which renders the mtime), FileInfo.ModTime / Sys, package time. Otherwise a
// timestamp-only touch, a same-content rewrite or a scratch file created and removed in a source directory re-executes
// the consumers.
func checkSumsIgnoreTimes(p *core.Prog, r *core.Result, rule string) {
	fileSum := need(p, r, rule, "", "", "fileSum")
	if fileSum == nil {
		return
	}
	isTimeSource := func(v ssa.Value) bool {
		c, ok := v.(*ssa.Call)
		if !ok {
			return false
		}
		cc := c.Common()
		if cc.IsInvoke() {
			switch cc.Method.Name() {
			case "ModTime", "Sys":
				return true
			}
			return false
		}
		cal := core.Callee(c)
		if cal == nil || cal.Pkg == nil {
			return false
		}
		switch cal.Pkg.Pkg.Path() {
		case "time":
			return true
		case "io/fs":
			return cal.Name() == "FormatFileInfo"
		case "os":
			return cal.Name() == "Chtimes"
		}
		return cal.Name() == "ModTime" && cal.Signature.Recv() != nil
	}
	n := 0
	for fn := range staticClosure(p, fileSum) {
		if fn.Pkg == nil || fn.Pkg.Pkg.Path() != pkgRoot {
			continue
		}
		for _, c := range core.Calls(fn) {
			fed, ok := hashFeed(c)
			if !ok {
				continue
			}
			n++
			construct := fmt.Sprintf("%s#hash-input-%d:no-times", fname(fn), n)
			var src ssa.Value
			core.DependsOn(fed, core.SliceOpts{Stores: true, ThroughCall: func(*ssa.Call) bool { return true }}, func(v ssa.Value) bool {
				if isTimeSource(v) {
					src = v
					return true
				}
				return false
			})
			if src != nil {
				r.Bad(rule, construct, p.InstrPos(c.(ssa.Instruction)), "what is fed into a source's content sum depends on %s, which changes without the contents (a modification time): a timestamp-only touch, a same-content rewrite or a scratch file created and removed below a source directory changes the sum and re-executes every consumer of an unchanged tree", strings.TrimSpace(src.String()))
			} else {
				r.OK(rule, construct, p.InstrPos(c.(ssa.Instruction)), "the hashed bytes are computed from names and contents only")
			}
		}
	}
	r.Floor(rule, n, 1, "inputs fed into source content sums")
}

// checkDecoderStackUnbounded (R7.18): a valid encoding may keep any number of values on the decoder's stack - tuples
// are not batched (every element sits above one MARK) and every container that is still being filled keeps its partial
// batch below the nested one. So no method of the Decoder fails because its stack (or memo) has reached a size: the only
// conditions on len(d.stack) that lead to a failure are underflow tests.
func checkDecoderStackUnbounded(p *core.Prog, r *core.Result, rule string) {
	n, bad := 0, 0
	for _, fn := range p.ModuleFuncs() {
		if fn.Pkg == nil || fn.Pkg.Pkg.Path() != pkgPickle || recvNamed(fn) != "Decoder" || fn.Blocks == nil {
			continue
		}
		for _, b := range fn.Blocks {
			iff, ok := b.Instrs[len(b.Instrs)-1].(*ssa.If)
			if !ok {
				continue
			}
			cmp, ok := iff.Cond.(*ssa.BinOp)
			if !ok {
				continue
			}
			lenOf := func(v ssa.Value) bool {
				c, ok := v.(*ssa.Call)
				if !ok {
					return false
				}
				bi, ok := c.Call.Value.(*ssa.Builtin)
				if !ok || bi.Name() != "len" {
					return false
				}
				return core.LoadOfField(c.Call.Args[0], pkgPickle, "Decoder", "stack") || core.LoadOfField(c.Call.Args[0], pkgPickle, "Decoder", "memo")
			}
			// which successor is taken when the container is LARGE?
			large := -1
			switch {
			case lenOf(cmp.X):
				if _, isConst := core.ConstInt(cmp.Y); !isConst {
					continue
				}
				switch cmp.Op {
				case token.GEQ, token.GTR:
					large = 0
				case token.LSS, token.LEQ:
					large = 1
				}
			case lenOf(cmp.Y):
				if _, isConst := core.ConstInt(cmp.X); !isConst {
					continue
				}
				switch cmp.Op {
				case token.LEQ, token.LSS:
					large = 0
				case token.GTR, token.GEQ:
					large = 1
				}
			}
			if large < 0 {
				continue
			}
			n++
			// does the "large" side run straight into a panic?
			sc := b.Succs[large]
			fails := false
			if len(sc.Instrs) > 0 {
				if _, isPanic := sc.Instrs[len(sc.Instrs)-1].(*ssa.Panic); isPanic && len(sc.Succs) == 0 {
					fails = true
				}
			}
			if fails {
				bad++
				r.Bad(rule, fmt.Sprintf("%s#size-limit-%d", fname(fn), bad), p.InstrPos(iff), "the decoder fails when its stack (or memo) has reached a fixed size: valid encodings have no such bound - a tuple keeps all its elements above one MARK and every enclosing container its partial batch below the nested one - so a large tuple or a few levels of 1000-element containers decode with \"stack overflow\" although they were encoded without error")
			}
		}
	}
	if bad == 0 {
		r.OK(rule, "pickle.Decoder#no-size-limit", "-", "%d comparison(s) of the decoder's stack/memo length with a constant examined: none fails on the large side", n)
	}
}

// checkRunNotInModuleEnv (R9.9): the limit is the capacity of the gate of one runner.Run, and a build is one
// runner.Run. A target body that could start a build of its own (the REPL's run() builtin calls Project.Run, which makes
// a new runner with a gate of its own) would execute its bodies next to the bodies of the build it belongs to, while
// still holding a slot of that build. So nothing that (*module).env puts into the environment of build files reaches
// Project.Run.
func checkRunNotInModuleEnv(p *core.Prog, r *core.Result, rule string) {
	env := need(p, r, rule, "", "module", "env")
	run := need(p, r, rule, "", "Project", "Run")
	if env == nil || run == nil {
		return
	}
	// reachability through static calls and through function values that are created (method values of builtins)
	var reach func(fn *ssa.Function, seen map[*ssa.Function]bool, chain []*ssa.Function) []*ssa.Function
	reach = func(fn *ssa.Function, seen map[*ssa.Function]bool, chain []*ssa.Function) []*ssa.Function {
		if fn == nil || seen[fn] || fn.Blocks == nil || !core.InModule(fn) && fn.Synthetic == "" {
			return nil
		}
		seen[fn] = true
		chain = append(chain, fn)
		if fn == run {
			return chain
		}
		var next []*ssa.Function
		core.Instrs(fn, func(in ssa.Instruction) {
			if c, ok := in.(ssa.CallInstruction); ok {
				if cal := core.Callee(c); cal != nil {
					next = append(next, cal)
				}
			}
			for _, op := range in.Operands(nil) {
				if op == nil || *op == nil {
					continue
				}
				switch x := (*op).(type) {
				case *ssa.MakeClosure:
					if f, ok := x.Fn.(*ssa.Function); ok {
						next = append(next, f)
					}
				case *ssa.Function:
					next = append(next, x)
				}
			}
		})
		for _, a := range fn.AnonFuncs {
			next = append(next, a)
		}
		for _, f := range next {
			if c := reach(f, seen, chain); c != nil {
				return c
			}
		}
		return nil
	}
	chain := reach(env, map[*ssa.Function]bool{}, nil)
	if chain != nil {
		var names []string
		for _, f := range chain {
			names = append(names, fname(f))
		}
		r.Bad(rule, "dawn.(*module).env#no-nested-build", p.Pos(env.Pos()), "the environment of build files contains something that reaches Project.Run (%s): a target body that calls it starts a runner with a gate of its own while still holding a slot of the build it belongs to, so more bodies than the limit execute at once", strings.Join(names, " -> "))
	} else {
		r.OK(rule, "dawn.(*module).env#no-nested-build", p.Pos(env.Pos()), "nothing that (*module).env hands to build files reaches Project.Run")
	}
	// positive control: the REPL environment does reach it
	if repl := p.Func("", "Project", "REPLEnv"); repl != nil {
		r.Check(reach(repl, map[*ssa.Function]bool{}, nil) != nil, rule, "rule-exercised", "-", "the same reachability finds Project.Run behind the REPL environment (positive control)", "the reachability analysis does not even find Project.Run behind the REPL's run builtin: the rule would pass vacuously")
	}
}

// checkEvaluateUnconditional (R13.8): a real build attempts every out-of-date target that is not downstream of a
// failure - that is what a dry run (which fails no body) reports. In (*target).run the invocation of Target.Evaluate is
// conditional on nothing but the outcome of loading that very target: a condition on state shared by the run (a flag
// that some other target's failure sets) makes the real build skip targets that do not depend on the failed one.
func checkEvaluateUnconditional(p *core.Prog, r *core.Result, rule string) {
	a := resolveRunner(p, r, rule)
	if a == nil {
		return
	}
	n := 0
	for _, fn := range p.ModuleFuncs() {
		if fn.Pkg == nil || fn.Pkg.Pkg.Path() != pkgRunner || fn.Blocks == nil {
			continue
		}
		for _, c := range core.Calls(fn) {
			cc := c.Common()
			if !cc.IsInvoke() || cc.Method.Name() != "Evaluate" {
				continue
			}
			n++
			in := c.(ssa.Instruction)
			construct := fmt.Sprintf("%s#evaluate-%d:unconditional", fname(fn), n)
			conds, _ := governingConds(in, func(govCond) bool { return false })
			var extra []string
			for _, g := range conds {
				// allowed: the nil test of the error of LoadTarget
				if b, ok := g.Cond.(*ssa.BinOp); ok && (b.Op == token.NEQ || b.Op == token.EQL) && core.IsNilConst(b.Y) {
					if e, isE := b.X.(*ssa.Extract); isE {
						if lc, isCall := e.Tuple.(*ssa.Call); isCall && lc.Call.IsInvoke() && lc.Call.Method.Name() == "LoadTarget" {
							continue
						}
					}
				}
				extra = append(extra, strings.TrimSpace(g.Cond.String()))
			}
			if len(extra) > 0 {
				r.Bad(rule, construct, p.InstrPos(in), "whether a started target is evaluated depends on %s, not only on whether it could be loaded: a condition on state of the whole run (set when some other target fails) makes the real build skip out-of-date targets that are not downstream of the failure, which the dry run reports", strings.Join(extra, "; "))
			} else {
				r.OK(rule, construct, p.InstrPos(in), "a started target is evaluated whenever it could be loaded")
			}
		}
	}
	r.Floor(rule, n, 1, "invocations of Target.Evaluate in package runner")
}

// checkGCCommandLoadsIndex (R14.9): `dawn gc` takes no target arguments or flags, so a full load there runs every
// parse_flag at its default and leaves out the targets and sources that exist only under the flags the project was built
// with; their records would be swept. The command therefore loads the project from the index (the project as it was
// last built): the index argument of its loadProject call is the constant true.
func checkGCCommandLoadsIndex(p *core.Prog, r *core.Result, rule string) {
	lp := need(p, r, rule, "cmd/dawn", "workspace", "loadProject")
	gc := need(p, r, rule, "", "Project", "GC")
	if lp == nil || gc == nil {
		return
	}
	idxParam := -1
	for i, prm := range lp.Params {
		if prm.Name() == "index" {
			idxParam = i
		}
	}
	n := 0
	for _, c := range p.StaticCallers(gc) {
		fn := c.Parent()
		if fn.Pkg != lp.Pkg {
			continue
		}
		// the load of the command that collects: the loadProject call(s) in the same function (or its wrapper)
		for _, lc := range core.Calls(fn) {
			cal := core.Callee(lc)
			if cal == nil {
				continue
			}
			var idx ssa.Value
			if cal == lp && idxParam >= 0 && idxParam < len(lc.Common().Args) {
				idx = lc.Common().Args[idxParam]
			} else if cal.Pkg == lp.Pkg {
				// a wrapper around the load
				for _, wc := range core.Calls(cal) {
					if core.Callee(wc) == lp && idxParam < len(wc.Common().Args) {
						idx = wc.Common().Args[idxParam]
						if prm, isParam := idx.(*ssa.Parameter); isParam {
							if i := paramIndex(cal, prm); i >= 0 && i < len(lc.Common().Args) {
								idx = lc.Common().Args[i]
							}
						}
					}
				}
			}
			if idx == nil {
				continue
			}
			n++
			b, isConst := core.ConstBool(idx)
			r.Check(isConst && b, rule, fmt.Sprintf("%s#gc-load-%d:from-index", fname(fn), n), p.InstrPos(lc.(ssa.Instruction)), "the collecting command loads the project as it was last built (index = true)",
				"the collecting command loads the project from its build files: `dawn gc` has no flag arguments, so targets and sources that exist only under the flags the project was built with are missing from that load, their records are swept, and the next build with those flags re-executes them")
		}
	}
	r.Floor(rule, n, 1, "loads of the collecting command")
}

// checkPersistedStringsNotSliced (R15.13): what a record holds is whatever bytes are on disk. A string read from a
// record (targetInfo.Data / Stamp, and the sums kept from them in sourceFile.oldSum and runTarget.data) is never sliced
// or indexed at a fixed position unless its length was compared first: dawn itself writes 64 hex digits or nothing, but
// a damaged record can hold any shorter string, and an out-of-range slice on a runner goroutine kills the process.
func checkPersistedStringsNotSliced(p *core.Prog, r *core.Result, rule string) {
	isPersisted := func(v ssa.Value) bool {
		for _, f := range [][2]string{{"targetInfo", "Data"}, {"targetInfo", "Stamp"}, {"sourceFile", "oldSum"}, {"runTarget", "data"}} {
			if core.LoadOfField(v, pkgRoot, f[0], f[1]) {
				return true
			}
		}
		return false
	}
	// parameters that receive a persisted string (two levels)
	tainted := map[*ssa.Parameter]bool{}
	for round := 0; round < 2; round++ {
		for _, fn := range p.ModuleFuncs() {
			for _, c := range core.Calls(fn) {
				h := core.Callee(c)
				if h == nil || !core.InModule(h) || h.Blocks == nil {
					continue
				}
				for i, a := range c.Common().Args {
					if i >= len(h.Params) {
						break
					}
					ua := core.Unwrap(a)
					if b, isB := ua.Type().Underlying().(*types.Basic); !isB || b.Info()&types.IsString == 0 {
						continue
					}
					if prm, isParam := ua.(*ssa.Parameter); isPersisted(ua) || isParam && tainted[prm] {
						tainted[h.Params[i]] = true
					}
				}
			}
		}
	}
	isTainted := func(v ssa.Value) bool {
		v = core.Unwrap(v)
		if isPersisted(v) {
			return true
		}
		prm, ok := v.(*ssa.Parameter)
		return ok && tainted[prm]
	}
	n, nBad := 0, 0
	for _, fn := range p.ModuleFuncs() {
		if fn.Blocks == nil {
			continue
		}
		core.Instrs(fn, func(in ssa.Instruction) {
			var x ssa.Value
			switch s := in.(type) {
			case *ssa.Slice:
				if s.Low == nil && s.High == nil {
					return
				}
				x = s.X
			case *ssa.Lookup:
				if _, isStr := s.X.Type().Underlying().(*types.Basic); !isStr {
					return
				}
				x = s.X
			case *ssa.Index:
				x = s.X
			default:
				return
			}
			if !isTainted(x) {
				return
			}
			n++
			guarded := p.FactsAt(in).Find(func(c ssa.Value, _ bool) bool {
				return core.DependsOn(c, core.SliceOpts{}, func(v ssa.Value) bool {
					lc, ok := v.(*ssa.Call)
					if !ok {
						return false
					}
					bi, ok := lc.Call.Value.(*ssa.Builtin)
					return ok && bi.Name() == "len" && core.Unwrap(lc.Call.Args[0]) == core.Unwrap(x)
				})
			})
			if !guarded {
				nBad++
				r.Bad(rule, fmt.Sprintf("%s#slice-of-persisted-string-%d", fname(fn), nBad), p.InstrPos(in), "a string that comes from a persisted record is sliced or indexed without its length having been looked at: a damaged record can hold a shorter string than dawn ever writes (a stamp cut to one digit still decodes as JSON), and the out-of-range slice on a runner goroutine kills the process instead of surfacing as an error or a rebuild")
			}
		})
	}
	if nBad == 0 {
		r.OK(rule, "module#persisted-strings-not-sliced", "-", "%d slice/index expression(s) on strings read from records examined, %d parameter(s) receive such strings: none slices without a length test", n, len(tainted))
	}
}

// checkIgnorePatternsVerbatim (R17.13): the ignore set matches what the patterns of dawn.toml say. Between the decoder
// and util.CompileGlobs the patterns are not rewritten: nothing stores into the elements of Config.Ignore, and the list
// handed to CompileGlobs for the ignore set is the field itself. (CleanPath, which the loader applies to requirement
// paths, drops a trailing @v0/@v1 and normalises ./ and //: `third_party/*@v1` would ignore every package below
// third_party.)
func checkIgnorePatternsVerbatim(p *core.Prog, r *core.Result, rule string) {
	n := 0
	bad := false
	for _, fn := range p.ModuleFuncs() {
		if fn.Blocks == nil {
			continue
		}
		core.Instrs(fn, func(in ssa.Instruction) {
			st, ok := in.(*ssa.Store)
			if !ok {
				return
			}
			// a store into an element of Config.Ignore, or of the field itself
			if ia, isIA := st.Addr.(*ssa.IndexAddr); isIA && core.LoadOfField(core.Unwrap(ia.X), pkgProj, "Config", "Ignore") {
				bad = true
				r.Bad(rule, fname(fn)+"#rewrites-ignore-pattern", p.InstrPos(st), "an element of Config.Ignore is overwritten after the file was decoded: the ignore set then matches something other than the patterns of dawn.toml (CleanPath drops a trailing @v0/@v1 and rewrites ./ and //: `third_party/*@v1` ignores every package below third_party, `gen/**/*.pb@v0` no longer matches gen/a/x.pb@v0)")
				return
			}
			if core.IsField(st.Addr, pkgProj, "Config", "Ignore") {
				bad = true
				r.Bad(rule, fname(fn)+"#replaces-ignore-list", p.InstrPos(st), "Config.Ignore is replaced after the file was decoded: the ignore set then matches something other than the patterns of dawn.toml")
			}
		})
		for _, c := range core.Calls(fn) {
			if cal := core.Callee(c); cal == nil || cal.Name() != "CompileGlobs" || cal.Pkg == nil || cal.Pkg.Pkg.Path() != pkgUtil {
				continue
			}
			arg := c.Common().Args[0]
			// a helper that is handed the list (compileIgnores(c.Ignore)): look at what its callers pass
			if prm, isParam := core.Unwrap(arg).(*ssa.Parameter); isParam {
				if i := paramIndex(fn, prm); i >= 0 {
					for _, cs := range p.StaticCallers(fn) {
						if i < len(cs.Common().Args) && core.LoadOfField(core.Unwrap(cs.Common().Args[i]), pkgProj, "Config", "Ignore") {
							arg = cs.Common().Args[i]
						}
					}
				}
			}
			fromIgnore := core.DependsOn(arg, core.SliceOpts{Stores: true, ThroughCall: func(*ssa.Call) bool { return true }}, func(v ssa.Value) bool {
				return core.LoadOfField(v, pkgProj, "Config", "Ignore")
			}) || core.LoadOfField(core.Unwrap(arg), pkgProj, "Config", "Ignore")
			if !fromIgnore {
				continue
			}
			n++
			r.Check(core.LoadOfField(core.Unwrap(arg), pkgProj, "Config", "Ignore"), rule, fmt.Sprintf("%s#compiles-ignore-%d", fname(fn), n), p.InstrPos(c.(ssa.Instruction)), "the ignore set is compiled from Config.Ignore itself", "the ignore set is compiled from a list derived from Config.Ignore rather than from the field itself: the patterns are rewritten on the way")
		}
	}
	r.Floor(rule, n, 1, "compilations of the ignore set")
	if !bad {
		r.OK(rule, "module#ignore-patterns-not-rewritten", "-", "nothing in the module stores into Config.Ignore or its elements")
	}
}

// valueClosure: the functions reachable from roots through static calls, closures, and function values that are created
// on the way (method values handed to starlark.NewBuiltin, callbacks), including the synthetic wrappers of bound methods.
func valueClosure(p *core.Prog, roots ...*ssa.Function) map[*ssa.Function]bool {
	seen := map[*ssa.Function]bool{}
	var visit func(fn *ssa.Function)
	visit = func(fn *ssa.Function) {
		if fn == nil || seen[fn] || fn.Blocks == nil || (!core.InModule(fn) && fn.Synthetic == "") {
			return
		}
		seen[fn] = true
		core.Instrs(fn, func(in ssa.Instruction) {
			if c, ok := in.(ssa.CallInstruction); ok {
				visit(core.Callee(c))
			}
			for _, op := range in.Operands(nil) {
				if op == nil || *op == nil {
					continue
				}
				switch x := (*op).(type) {
				case *ssa.MakeClosure:
					if f, ok := x.Fn.(*ssa.Function); ok {
						visit(f)
					}
				case *ssa.Function:
					visit(x)
				}
			}
		})
		for _, a := range fn.AnonFuncs {
			visit(a)
		}
	}
	for _, r := range roots {
		visit(r)
	}
	return seen
}

// checkEnvNotDuringLoad (R2.5, shared as R1.18 and R8.16): the environment of a target function is computed when the
// target is checked or has run - after every module has finished loading - never by code that runs while modules are
// executing: loadFunction, (*function).load, or any builtin that (*module).env hands to build files (target()). While
// the defining module is still executing, globals assigned further down are unset (ModuleEnv skips them) and mutable
// globals are half-built.
func checkEnvNotDuringLoad(p *core.Prog, r *core.Result, rule, consequence string) {
	fe := p.Func("", "", "functionEnv")
	lf := p.Func("", "Project", "loadFunction")
	if fe == nil || lf == nil {
		r.Unk(rule, "anchor:dawn.functionEnv/loadFunction", "-", "not found")
		return
	}
	roots := []*ssa.Function{lf}
	if fl := p.Func("", "function", "load"); fl != nil {
		roots = append(roots, fl)
	}
	if env := p.Func("", "module", "env"); env != nil {
		roots = append(roots, env)
	}
	reach := valueClosure(p, roots...)
	// the REPL's own builtins are not handed to build files; module.env does not reach them
	if reach[fe] {
		via := ""
		for f := range reach {
			for _, c := range core.Calls(f) {
				if core.Callee(c) == fe {
					via = fname(f)
				}
			}
		}
		r.Bad(rule, "dawn.functionEnv#not-during-load", p.Pos(fe.Pos()), "the environment of a target function is computed (in %s) by code that runs while modules are still executing (loadFunction, (*function).load, or a builtin of build files such as target()): globals assigned further down in the module are missing from it (ModuleEnv skips unset globals) and mutable globals are half-built - %s", via, consequence)
	} else {
		r.OK(rule, "dawn.functionEnv#not-during-load", p.Pos(fe.Pos()), "not reachable from loadFunction, (*function).load or the builtins of build files (%d functions): the environment is taken when the target is checked, after all modules have loaded", len(reach))
	}
}

// checkBaselineAdvancesWithRun (R16.11): the diff and the reason of a target name what differs from the environment it
// last ran in. A Project may be run several times (REPL, API); after a successful run of a function target the recorded
// side of the comparison is the environment of that run: every successful return of (*function).evaluate lies behind a
// store into function.oldEnv of the current environment (function.newEnv). Without it every later run on the same
// Project reports the difference to the state loaded from disk again - a stale reason and a stale diff.
func checkBaselineAdvancesWithRun(p *core.Prog, r *core.Result, rule string) {
	ev := need(p, r, rule, "", "function", "evaluate")
	if ev == nil {
		return
	}
	var stores []*ssa.Store
	for fn := range staticClosure(p, ev) {
		if fn.Pkg != ev.Pkg {
			continue
		}
		core.Instrs(fn, func(in ssa.Instruction) {
			if st, ok := in.(*ssa.Store); ok && core.IsField(st.Addr, pkgRoot, "function", "oldEnv") {
				stores = append(stores, st)
			}
		})
	}
	n := 0
	for _, ret := range core.ReturnsOf(ev) {
		vals := core.RetVals(ret)
		if len(vals) == 0 || !core.IsNilConst(vals[len(vals)-1]) {
			continue
		}
		n++
		construct := fmt.Sprintf("dawn.(*function).evaluate#success-%d:baseline-advanced", n)
		ok := false
		for _, st := range stores {
			fromNew := core.LoadOfField(core.Unwrap(st.Val), pkgRoot, "function", "newEnv") || core.DependsOn(st.Val, core.SliceOpts{Stores: true}, func(v ssa.Value) bool {
				return core.LoadOfField(v, pkgRoot, "function", "newEnv")
			})
			if !fromNew {
				continue
			}
			if st.Parent() == ev && core.Dominates(st, ret) {
				ok = true
			}
			if st.Parent() != ev {
				// in a helper: a call of the helper dominates the return
				for _, c := range core.Calls(ev) {
					if staticClosure(p, core.Callee(c))[st.Parent()] && core.Dominates(c.(ssa.Instruction), ret) {
						ok = true
					}
				}
			}
		}
		if ok {
			r.OK(rule, construct, p.InstrPos(ret), "the environment of this run becomes the recorded side of the next comparison")
		} else {
			r.Bad(rule, construct, p.InstrPos(ret), "a successful run does not make its environment the recorded side of the comparison (no store of function.newEnv into function.oldEnv before the return): on a Project that is run again (REPL run(), API) the target keeps being compared with the environment loaded from disk - it is reported as evaluating with the reason and diff of a change that has already been built, and that stale reason displaces \"always\"")
		}
	}
	r.Floor(rule, n, 1, "successful returns of (*function).evaluate")
}

// importMatching is importObligations restricted to the obligations whose construct contains the given text.
func importMatching(p *core.Prog, r *core.Result, run func(*core.Prog, *core.Result), from, rule, contains, as string) int {
	sub := core.NewResult(from)
	run(p, sub)
	n := 0
	for _, o := range sub.Obls {
		if o.Rule != rule || !strings.Contains(o.Construct, contains) {
			continue
		}
		n++
		switch o.Status {
		case core.Discharged:
			r.OK(as, o.Construct, o.Pos, "%s", o.Detail)
		case core.Violated:
			r.Bad(as, o.Construct, o.Pos, "%s", o.Detail)
		case core.Undecided:
			r.Unk(as, o.Construct, o.Pos, "%s", o.Detail)
		}
	}
	return n
}

// checkVerdictDoesNotCommit (R13.9): asking whether a target is up to date changes nothing that a later check looks at.
// The recorded side of the comparisons - sourceFile.oldSum, function.oldEnv - is written only by the code that runs when
// a target is loaded or has been evaluated (load, evaluate, setInfo), never from Target.upToDate(): a dry run performs
// the check but not the evaluation, so a check that already "remembers" what it saw makes the next run on the same
// Project find an edited source up to date - the real build attempts nothing of what the dry run reported.
func checkVerdictDoesNotCommit(p *core.Prog, r *core.Result, rule string) {
	fields := [][2]string{{"sourceFile", "oldSum"}, {"function", "oldEnv"}}
	n := 0
	for _, recv := range []string{"sourceFile", "function", "indexTarget"} {
		up := p.Func("", recv, "upToDate")
		if up == nil {
			continue
		}
		n++
		var bad *ssa.Store
		for fn := range staticClosure(p, up) {
			if fn.Pkg != up.Pkg {
				continue
			}
			core.Instrs(fn, func(in ssa.Instruction) {
				st, ok := in.(*ssa.Store)
				if !ok {
					return
				}
				for _, f := range fields {
					if core.IsField(st.Addr, pkgRoot, f[0], f[1]) {
						bad = st
					}
				}
			})
		}
		construct := fmt.Sprintf("dawn.(*%s).upToDate#does-not-commit", recv)
		if bad != nil {
			r.Bad(rule, construct, p.InstrPos(bad), "the up-to-date check itself overwrites the recorded side of its comparison: a dry run performs the check but not the evaluation, so after a dry run the next run on the same Project finds the edited source (or changed function) up to date and attempts nothing of what the dry run reported")
		} else {
			r.OK(rule, construct, p.Pos(up.Pos()), "the check writes neither sourceFile.oldSum nor function.oldEnv")
		}
	}
	r.Floor(rule, n, 2, "implementations of Target.upToDate")
}

// checkDiffAssertsChecked (R15.14): the values the differ is handed are decoded records - whatever the bytes on disk
// decode to - and it runs on a runner goroutine, outside the decoder's recover. Package diff therefore contains no
// unchecked type assertion on a value: an assertion that holds for every pair dawn itself produces (both sides text)
// fails for a damaged record that decodes to another kind on one side (a string where the current environment has a
// tuple), and the panic kills the process.
func checkDiffAssertsChecked(p *core.Prog, r *core.Result, rule string) {
	n, nBad := 0, 0
	for _, fn := range p.ModuleFuncs() {
		if fn.Pkg == nil || fn.Pkg.Pkg.Path() != pkgDiff || fn.Blocks == nil {
			continue
		}
		core.Instrs(fn, func(in ssa.Instruction) {
			ta, ok := in.(*ssa.TypeAssert)
			if !ok {
				return
			}
			n++
			if ta.CommaOk {
				return
			}
			// only the values that come in from outside: a parameter, or one of the two sequences the differ holds -
			// not what the differ derives itself (the result of Slice() on a Sliceable, its own *Edit records)
			x := core.Unwrap(ta.X)
			_, isParam := x.(*ssa.Parameter)
			if !isParam && !core.LoadOfField(x, pkgDiff, "differ", "a") && !core.LoadOfField(x, pkgDiff, "differ", "b") {
				return
			}
			// an unchecked assertion is fine where a checked test of the same value to the same type is known to hold
			guarded := p.FactsAt(ta).Find(func(c ssa.Value, val bool) bool {
				e, isE := c.(*ssa.Extract)
				if !isE || e.Index != 1 || !val {
					return false
				}
				t2, isTA := e.Tuple.(*ssa.TypeAssert)
				return isTA && t2.CommaOk && t2.X == ta.X && types.Identical(t2.AssertedType, ta.AssertedType)
			})
			if guarded {
				return
			}
			nBad++
			r.Bad(rule, fmt.Sprintf("%s#unchecked-assertion-%d", fname(fn), nBad), p.InstrPos(ta), "package diff asserts the dynamic type of a value (%s) without checking: the differ compares the environment decoded from a record with the current one, a damaged record can decode to another kind of value on one side, and the failed assertion panics on a runner goroutine - the process dies instead of re-evaluating the target or reporting an error", ta.AssertedType)
		})
	}
	if nBad == 0 {
		r.OK(rule, "diff#type-assertions-checked", "-", "%d type assertion(s) in package diff examined: all are comma-ok (or guarded by one)", n)
	}
	r.Floor(rule, n, 3, "type assertions in package diff")
}

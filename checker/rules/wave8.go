package rules

import (
	"fmt"
	"go/token"
	"go/types"
	"sort"
	"strings"

	"golang.org/x/tools/go/ssa"

	"dawnverif/checker/core"
)

var _ = fmt.Sprintf
var _ = token.ADD
var _ = types.Typ
var _ = sort.Strings
var _ = strings.HasPrefix
var _ ssa.Value

// checkLocksReleased (R4.12): no function of the build engine (packages dawn and runner) returns with a mutex it took
// still locked, unless the release is deferred. The table of targets (Project.targets under Project.m) is consulted by
// every LoadTarget of a run, from a goroutine that occupies a slot: a lock leaked on one exit (the unknown-target
// return, say) blocks every later lookup, so the dependents of everything looked up afterwards never get an outcome.
func checkLocksReleased(p *core.Prog, r *core.Result, rule string) {
	n := 0
	for _, fn := range p.ModuleFuncs() {
		if fn.Pkg == nil || fn.Blocks == nil {
			continue
		}
		if pp := fn.Pkg.Pkg.Path(); pp != pkgRoot && pp != pkgRunner {
			continue
		}
		li := p.Locks(fn)
		if len(li.Ops) == 0 {
			continue
		}
		n++
		lockBalanced(p, r, rule, fn)
	}
	r.Floor(rule, n, 8, "functions of packages dawn and runner that lock a mutex")
}

// checkEngineNotFromGoroutines (R9.8): a target hands its slot back and retakes it inside Engine.EvaluateTargets, on
// the goroutine that run() started for it. A second, concurrent EvaluateTargets of the same target (from a goroutine
// the target starts itself) gives the one slot back twice: until the first call returns the gate admits one body more
// than the limit. So no function started by a `go` statement outside package runner may reach an Engine call.
func checkEngineNotFromGoroutines(p *core.Prog, r *core.Result, rule string) {
	isEngineCall := func(c ssa.CallInstruction) bool {
		cc := c.Common()
		if !cc.IsInvoke() || cc.Method.Name() != "EvaluateTargets" {
			return false
		}
		n, ok := cc.Value.Type().(*types.Named)
		return ok && n.Obj().Pkg() != nil && n.Obj().Pkg().Path() == pkgRunner && n.Obj().Name() == "Engine"
	}
	callers := map[*ssa.Function]ssa.CallInstruction{}
	for _, fn := range p.ModuleFuncs() {
		for _, c := range core.Calls(fn) {
			if isEngineCall(c) {
				callers[fn] = c
			}
		}
	}
	r.Floor(rule, len(callers), 1, "functions that call Engine.EvaluateTargets")
	nGo := 0
	for _, fn := range p.ModuleFuncs() {
		if fn.Pkg != nil && fn.Pkg.Pkg.Path() == pkgRunner {
			continue // the runner starts one goroutine per target: that goroutine owns the slot (R9.1)
		}
		core.Instrs(fn, func(in ssa.Instruction) {
			g, ok := in.(*ssa.Go)
			if !ok {
				return
			}
			nGo++
			construct := fmt.Sprintf("%s#go-%d", fname(fn), nGo)
			var roots []*ssa.Function
			if cal := core.Callee(g); cal != nil {
				roots = append(roots, cal)
			}
			if mc, isMC := g.Call.Value.(*ssa.MakeClosure); isMC {
				if f, isF := mc.Fn.(*ssa.Function); isF {
					roots = append(roots, f)
				}
			}
			if len(roots) == 0 {
				if g.Call.IsInvoke() && isEngineCall(g) {
					r.Bad(rule, construct, p.InstrPos(g), "Engine.EvaluateTargets is started as a goroutine: the slot of the calling target is given back by a goroutine that does not own it")
				} else {
					r.OK(rule, construct, p.InstrPos(g), "starts a dynamic callee that is not an Engine method")
				}
				return
			}
			for f := range staticClosure(p, roots...) {
				if c, bad := callers[f]; bad {
					r.Bad(rule, construct, p.InstrPos(g), "the goroutine started here reaches Engine.EvaluateTargets (%s at %s): a target that requests dependencies from two goroutines at once gives its one slot back twice, so the gate admits more bodies than the limit until the first request returns", fname(f), p.InstrPos(c.(ssa.Instruction)))
					return
				}
			}
			r.OK(rule, construct, p.InstrPos(g), "the started goroutine does not reach Engine.EvaluateTargets")
		})
	}
	r.Floor(rule, nGo, 3, "go statements outside package runner")
}

// checkIndexSavedBySuccessfulLoadOnly (R14.8): the index is what an index-based load (dawn gc, list, ...) takes for the
// project's targets, and GC sweeps the record of everything that load does not know. So the index may only be rewritten
// by a load that succeeds: behind a saveIndex call no return with an error is reachable. An index written before the
// modules' errors are looked at lacks the targets of every module that failed to load; a collection run in that state
// removes their records, and the build after the repair re-executes them.
func checkIndexSavedBySuccessfulLoadOnly(p *core.Prog, r *core.Result, rule string) {
	save := need(p, r, rule, "", "Project", "saveIndex")
	if save == nil {
		return
	}
	n := 0
	for _, c := range p.StaticCallers(save) {
		in := c.(ssa.Instruction)
		fn := in.Parent()
		res := fn.Signature.Results()
		if res.Len() == 0 || !isErrorType(res.At(res.Len()-1).Type()) {
			continue
		}
		n++
		construct := fmt.Sprintf("%s#saveIndex-%d:no-failure-behind", fname(fn), n)
		var bad *ssa.Return
		for _, ret := range core.ReturnsOf(fn) {
			if ret.Block() != in.Block() && !core.Reaches(in.Block(), ret.Block(), false) {
				continue
			}
			if ret.Block() == in.Block() && core.Index(ret) < core.Index(in) && !core.Reaches(in.Block(), in.Block(), false) {
				continue
			}
			vals := core.RetVals(ret)
			if len(vals) == 0 || !core.IsNilConst(vals[len(vals)-1]) {
				bad = ret
			}
		}
		if bad != nil {
			r.Bad(rule, construct, p.InstrPos(in), "the index is rewritten at a point from which the load can still fail (return at %s): a failed load leaves an index that lacks the targets of the modules that did not load, an index-based collection then removes their records, and the build after the repair re-executes them", p.InstrPos(bad))
		} else {
			r.OK(rule, construct, p.InstrPos(in), "every return behind the index write reports success")
		}
	}
	r.Floor(rule, n, 1, "saveIndex call sites in functions that can fail")
}

func isErrorType(t types.Type) bool {
	n, ok := t.(*types.Named)
	return ok && n.Obj().Pkg() == nil && n.Obj().Name() == "error"
}

// checkVerdictAfterDependencies (R2.11): a target's own verdict is taken after its dependencies were evaluated. A source
// file that another target generates has that generator as its dependency (link()); hashed before the generator ran in
// this build, it is recorded with the sum of the previous contents, so the rebuild of the unchanged tree finds it
// "changed" and re-executes every consumer.
func checkVerdictAfterDependencies(p *core.Prog, r *core.Result, rule string) {
	m := buildEvalModel(p, r, rule)
	if m == nil {
		return
	}
	var deps ssa.Instruction = m.DepsCall
	if m.DepsSite != nil {
		deps = m.DepsSite
	}
	if deps == nil || m.UpToDate == nil {
		r.Unk(rule, "dawn.(*runTarget).Evaluate#verdict-after-dependencies", p.Pos(m.Fn.Pos()), "dependency evaluation or the upToDate() call not recognised")
		return
	}
	r.Check(m.dom(deps, m.UpToDate), rule, "dawn.(*runTarget).Evaluate#verdict-after-dependencies", p.InstrPos(m.UpToDate),
		"Target.upToDate() is asked behind the evaluation of the dependencies",
		"Target.upToDate() is asked before the dependencies were evaluated: a generated source file is hashed before its generator ran in this build and recorded with the sum of its previous contents, so the next build of the unchanged tree reports it as changed and re-executes its consumers")
}

// checkReasonOfOwnVerdictShown (R16.10): when the target itself is out of date, the reason shown with the evaluating
// event is the one its upToDate() returned (which names the parts of the environment that differ): every other value
// that can reach the reason argument of TargetEvaluating is selected only where upToDate() said true.
func checkReasonOfOwnVerdictShown(p *core.Prog, r *core.Result, rule string) {
	m := buildEvalModel(p, r, rule)
	if m == nil {
		return
	}
	if m.UpToDate == nil || len(m.Events["TargetEvaluating"]) == 0 {
		r.Unk(rule, "dawn.(*runTarget).Evaluate#reason-shown", p.Pos(m.Fn.Pos()), "upToDate() or the TargetEvaluating call not recognised")
		return
	}
	verdict0, own0 := extractOf(m.UpToDate, 0), extractOf(m.UpToDate, 1)
	saysTrueOf := func(verdict ssa.Value) func(fs core.FactSet) bool {
		return func(fs core.FactSet) bool {
			return fs.Find(func(c ssa.Value, val bool) bool {
				if c == verdict && val {
					return true
				}
				// !upToDate spelled as a negation
				if u, ok := c.(*ssa.UnOp); ok && u.Op == token.NOT && u.X == verdict && !val {
					return true
				}
				return false
			})
		}
	}
	n := 0
	for _, ev := range m.Events["TargetEvaluating"] {
		args := ev.Call.Args
		if len(args) < 2 {
			continue
		}
		n++
		construct := fmt.Sprintf("dawn.(*runTarget).Evaluate#reason-shown-%d", n)
		ok, where := true, ""
		var visit func(v ssa.Value, under bool, verdict, own ssa.Value, depth int, seen map[ssa.Value]bool)
		visit = func(v ssa.Value, under bool, verdict, own ssa.Value, depth int, seen map[ssa.Value]bool) {
			if v == own || seen[v] || depth > 6 {
				return
			}
			seen[v] = true
			saysTrue := saysTrueOf(verdict)
			if ph, isPhi := v.(*ssa.Phi); isPhi {
				fss := p.PhiEdgeFacts(ph)
				for i, e := range ph.Edges {
					visit(e, under || (i < len(fss) && saysTrue(fss[i])), verdict, own, depth+1, seen)
				}
				return
			}
			// the reason is chosen by a helper that is handed the verdict and the target's own reason
			if c, isCall := v.(*ssa.Call); isCall && !under {
				if h := core.Callee(c); h != nil && h.Blocks != nil && h.Pkg == m.Fn.Pkg {
					var hv, ho ssa.Value
					for i, a := range c.Call.Args {
						if i >= len(h.Params) {
							break
						}
						if a == verdict {
							hv = h.Params[i]
						}
						if a == own {
							ho = h.Params[i]
						}
					}
					if hv != nil && ho != nil {
						for _, ret := range core.ReturnsOf(h) {
							vals := core.RetVals(ret)
							if len(vals) != 1 {
								ok, where = false, p.InstrPos(ret)
								continue
							}
							visit(vals[0], saysTrueOf(hv)(p.FactsAt(ret)), hv, ho, depth+1, seen)
						}
						return
					}
				}
			}
			if !under {
				ok = false
				if in, isIn := v.(ssa.Instruction); isIn {
					where = p.InstrPos(in)
				} else {
					where = v.String()
				}
			}
		}
		// the reason argument is the second of TargetEvaluating(label, reason, diff)
		visit(args[1], saysTrueOf(verdict0)(p.FactsAt(ev)), verdict0, own0, 0, map[ssa.Value]bool{})
		if ok {
			r.OK(rule, construct, p.InstrPos(ev), "where the target's own verdict is 'out of date' the reason shown is the one upToDate() returned")
		} else {
			r.Bad(rule, construct, p.InstrPos(ev), "a reason other than the one upToDate() returned (%s) can be shown although the target itself is out of date: the event then carries the environment diff but its reason does not name the parts that differ", where)
		}
	}
	r.Floor(rule, n, 1, "TargetEvaluating events of Evaluate")
}

// governingConds lists the branch conditions on which the execution of `at` depends (transitive control dependence, so
// short-circuit conditions and early returns are seen), not looking beyond a condition that stop() accepts (which is
// included); stopped reports that such a condition was met.
type govCond struct {
	Cond ssa.Value
	Val  bool
}

func governingConds(at ssa.Instruction, stop func(govCond) bool) (conds []govCond, stopped bool) {
	fn := at.Parent()
	pdom := postDominators(fn)
	seenB := map[*ssa.BasicBlock]bool{}
	seenC := map[govCond]bool{}
	work := []*ssa.BasicBlock{at.Block()}
	for len(work) > 0 {
		b := work[len(work)-1]
		work = work[:len(work)-1]
		if seenB[b] {
			continue
		}
		seenB[b] = true
		// b is control dependent on d if b post-dominates a successor of d without post-dominating d itself
		for _, d := range fn.Blocks {
			iff, ok := d.Instrs[len(d.Instrs)-1].(*ssa.If)
			if !ok || (d != b && pdom[d][b.Index]) {
				continue
			}
			for si, sc := range d.Succs {
				if sc != b && !pdom[sc][b.Index] {
					continue
				}
				g := govCond{iff.Cond, si == 0}
				if seenC[g] {
					continue
				}
				seenC[g] = true
				conds = append(conds, g)
				if stop(g) {
					stopped = true
				} else {
					work = append(work, d)
				}
			}
		}
	}
	return conds, stopped
}

// postDominators: pdom[b][i] reports that block i post-dominates b (every path from b to an exit runs through i).
func postDominators(fn *ssa.Function) map[*ssa.BasicBlock][]bool {
	n := len(fn.Blocks)
	pdom := map[*ssa.BasicBlock][]bool{}
	for _, b := range fn.Blocks {
		set := make([]bool, n)
		if len(b.Succs) == 0 {
			set[b.Index] = true
		} else {
			for i := range set {
				set[i] = true
			}
		}
		pdom[b] = set
	}
	for changed := true; changed; {
		changed = false
		for i := n - 1; i >= 0; i-- {
			b := fn.Blocks[i]
			if len(b.Succs) == 0 {
				continue
			}
			next := make([]bool, n)
			for j := range next {
				next[j] = true
				for _, sc := range b.Succs {
					if !pdom[sc][j] {
						next[j] = false
						break
					}
				}
			}
			next[b.Index] = true
			for j := range next {
				if next[j] != pdom[b][j] {
					changed = true
				}
			}
			pdom[b] = next
		}
	}
	return pdom
}

// checkCycleErrorReportedUnconditionally (R5.8): the cyclic-dependency error reaches exactly one target - the one whose
// request closed the cycle - and only that target can report it. In its Evaluate, between the test "this dependency's
// result carries an error" and the TargetFailed event that reports a CyclicDependencyError there is nothing but tests
// of the error's type: a further condition (the kind of the target, a flag) makes some cycles fail without any
// cyclic-dependency error being reported.
func checkCycleErrorReportedUnconditionally(p *core.Prog, r *core.Result, rule string) {
	m := buildEvalModel(p, r, rule)
	if m == nil {
		return
	}
	isCyc := func(t types.Type) bool {
		n, ok := t.(*types.Named)
		return ok && n.Obj().Pkg() != nil && n.Obj().Pkg().Path() == pkgRunner && n.Obj().Name() == "CyclicDependencyError"
	}
	isErrNilTest := func(g govCond) bool {
		b, ok := g.Cond.(*ssa.BinOp)
		if !ok || (b.Op != token.NEQ && b.Op != token.EQL) || !core.IsNilConst(b.Y) {
			return false
		}
		return (b.Op == token.NEQ) == g.Val && core.LoadOfField(b.X, pkgRunner, "Result", "Error")
	}
	isTypeTest := func(g govCond) bool {
		e, ok := g.Cond.(*ssa.Extract)
		if !ok || e.Index != 1 {
			return false
		}
		ta, ok := e.Tuple.(*ssa.TypeAssert)
		return ok && ta.CommaOk && isErrorType(ta.X.Type())
	}
	n := 0
	scope := map[*ssa.Function]bool{m.Fn: true}
	if m.DepsFn != nil {
		scope[m.DepsFn] = true
	}
	for _, h := range m.Helpers {
		scope[h] = true
	}
	for fn := range scope {
		for _, c := range core.Calls(fn) {
			cc := c.Common()
			if !cc.IsInvoke() || cc.Method.Name() != "TargetFailed" || len(cc.Args) != 2 {
				continue
			}
			// the reported error is a CyclicDependencyError taken out of an error value by a type test
			var ta *ssa.TypeAssert
			core.DependsOn(cc.Args[1], core.SliceOpts{}, func(v ssa.Value) bool {
				if x, ok := v.(*ssa.TypeAssert); ok && isCyc(x.AssertedType) {
					ta = x
					return true
				}
				return false
			})
			if ta == nil {
				continue
			}
			n++
			construct := fmt.Sprintf("%s#cycle-error-reported-%d", fname(fn), n)
			in := c.(ssa.Instruction)
			var extra []string
			at, cur, decided := in, fn, false
			for depth := 0; depth < 3 && !decided; depth++ {
				conds, stopped := governingConds(at, isErrNilTest)
				for _, g := range conds {
					if !isTypeTest(g) && !isErrNilTest(g) {
						extra = append(extra, fmt.Sprintf("%s is %v", strings.TrimSpace(g.Cond.String()), g.Val))
					}
				}
				if stopped {
					decided = true
					break
				}
				// reached the entry of a helper: continue at its only call site
				sites := p.StaticCallers(cur)
				if cur == m.Fn || len(sites) != 1 {
					break
				}
				at = sites[0].(ssa.Instruction)
				cur = at.Parent()
			}
			switch {
			case !decided:
				r.Unk(rule, construct, p.InstrPos(in), "the test of the dependency's error that governs this report was not found")
			case len(extra) > 0:
				r.Bad(rule, construct, p.InstrPos(in), "the cyclic-dependency error is reported only under a further condition (%s): the target that closes a cycle is the only one the error is handed to, so a cycle closed by a target for which the condition fails makes the build fail without any cyclic-dependency error being reported", strings.Join(extra, "; "))
			default:
				r.OK(rule, construct, p.InstrPos(in), "between the test of the dependency's error and the report there are only tests of the error's type")
			}
		}
	}
	r.Floor(rule, n, 1, "TargetFailed events that report a CyclicDependencyError")
}

// checkRequirementPathsNormalised (R10.12): a project is one node of the requirement graph under one spelling of its
// path. The loader of a configuration (LoadConfigBytes and its in-package helpers) stores, for every requirement, an
// entry whose Path is the result of CleanPath back into the Requirements map it returns; without the write-back
// `p@v1`, `p/./x` and `p` are three projects: resolved, fetched and listed separately (and a cold cache fails where a
// warm one lists the project twice).
func checkRequirementPathsNormalised(p *core.Prog, r *core.Result, rule string) {
	load := need(p, r, rule, "internal/project", "", "LoadConfigBytes")
	clean := need(p, r, rule, "internal/project", "", "CleanPath")
	if load == nil || clean == nil {
		return
	}
	isLoopCond := func(g govCond) bool {
		switch c := g.Cond.(type) {
		case *ssa.Extract:
			_, isNext := c.Tuple.(*ssa.Next)
			return isNext && c.Index == 0
		case *ssa.BinOp:
			if c.Op != token.LSS && c.Op != token.GTR && c.Op != token.NEQ {
				return false
			}
			x := c.X
			if inc, isInc := x.(*ssa.BinOp); isInc && inc.Op == token.ADD {
				x = inc.X // rangeindex loops test the incremented index
			}
			_, isPhi := x.(*ssa.Phi)
			return isPhi
		}
		return false
	}
	n, good := 0, 0
	for fn := range staticClosure(p, load) {
		if fn.Pkg != load.Pkg {
			continue
		}
		core.Instrs(fn, func(in ssa.Instruction) {
			mu, ok := in.(*ssa.MapUpdate)
			if !ok {
				return
			}
			nt, ok := mu.Value.Type().(*types.Named)
			if !ok || nt.Obj().Name() != "RequirementConfig" {
				return
			}
			n++
			construct := fmt.Sprintf("%s#requirement-written-back-%d", fname(fn), n)
			cleaned := core.DependsOn(mu.Value, core.SliceOpts{Stores: true}, func(v ssa.Value) bool {
				c, ok := v.(*ssa.Call)
				return ok && core.Callee(c) == clean
			})
			if !cleaned {
				r.Bad(rule, construct, p.InstrPos(mu), "the requirement stored into the configuration does not carry the result of CleanPath: requirement paths stay as they were spelled, and two spellings of one project become two nodes of the graph")
				return
			}
			conds, stopped := governingConds(mu, isLoopCond)
			var extra []string
			for _, g := range conds {
				if !isLoopCond(g) {
					extra = append(extra, strings.TrimSpace(g.Cond.String()))
				}
			}
			if !stopped {
				r.Bad(rule, construct, p.InstrPos(mu), "the write-back of the cleaned requirement is not inside a loop over the requirements")
				return
			}
			if len(extra) > 0 {
				r.Bad(rule, construct, p.InstrPos(mu), "the cleaned requirement is written back only under a condition (%s): some requirement paths stay as they were spelled", strings.Join(extra, "; "))
				return
			}
			good++
			r.OK(rule, construct, p.InstrPos(mu), "every requirement is stored back with its path cleaned")
		})
	}
	if good == 0 && n == 0 {
		r.Bad(rule, "internal/project.LoadConfigBytes#requirement-written-back", p.Pos(load.Pos()), "the configuration loader never stores a requirement with a cleaned path back into the configuration it returns: CleanPath's result (if computed at all) is dropped, so `p@v1`, `p/./x` and `p` are resolved, fetched and listed as different projects")
	}
}

// checkResolutionErrorsPropagated (R11.10): in the requirement operations (package internal/mvs) a failure of a
// resolution step - listing a project's versions, resolving a project, dialing or fetching - is a failure of the
// operation: no return that lies on the failing edge of such a call reports success. "Upgrade all" that keeps the old
// version of a project whose versions could not be listed reports success with a build list that is not the upgraded
// one, and repeating it (with the repository reachable again) changes the requirements once more.
func checkResolutionErrorsPropagated(p *core.Prog, r *core.Result, rule string) {
	n := 0
	seenC := map[string]int{}
	for _, fn := range p.ModuleFuncs() {
		if fn.Pkg == nil || fn.Pkg.Pkg.Path() != pkgMvs || fn.Blocks == nil {
			continue
		}
		res := fn.Signature.Results()
		if res.Len() == 0 || !isErrorType(res.At(res.Len()-1).Type()) {
			continue
		}
		rets := core.ReturnsOf(fn)
		for _, c := range core.Calls(fn) {
			call, ok := c.(*ssa.Call)
			if !ok {
				continue
			}
			cal := core.Callee(call)
			if cal == nil || !core.InModule(cal) {
				continue
			}
			cres := cal.Signature.Results()
			if cres.Len() == 0 || !isErrorType(cres.At(cres.Len()-1).Type()) {
				continue
			}
			var errv ssa.Value = call
			if cres.Len() > 1 {
				errv = extractOf(call, cres.Len()-1)
			}
			if errv == nil {
				continue
			}
			n++
			construct := fmt.Sprintf("%s#error-of-%s", fname(fn), cal.Name())
			seenC[construct]++
			if k := seenC[construct]; k > 1 {
				construct = fmt.Sprintf("%s-%d", construct, k)
			}
			var bad *ssa.Return
			for _, ret := range rets {
				nn, known := p.FactsAt(ret).ErrNonNil(errv)
				if !known || !nn {
					continue
				}
				// a failure that is classified and handled (errors.Is(err, fs.ErrExist): somebody else has just created
				// the cache entry) is not swallowed
				if p.FactsAt(ret).Find(func(cond ssa.Value, val bool) bool {
					ic, ok := cond.(*ssa.Call)
					if !ok || len(ic.Call.Args) == 0 || !sameErr(ic.Call.Args[0], errv) {
						return false
					}
					if core.IsCallTo(ic, "errors", "Is") || core.IsCallTo(ic, "errors", "As") || core.IsCallTo(ic, "os", "IsNotExist") || core.IsCallTo(ic, "os", "IsExist") {
						return true
					}
					// a boolean classifier of the module applied to the error (isMissing(err))
					h := core.Callee(ic)
					return h != nil && core.InModule(h) && len(ic.Call.Args) == 1 && h.Signature.Results().Len() == 1 && h.Signature.Results().At(0).Type().String() == "bool"
				}) {
					continue
				}
				vals := core.RetVals(ret)
				if len(vals) > 0 && core.IsNilConst(vals[len(vals)-1]) {
					bad = ret
				}
			}
			if bad != nil {
				r.Bad(rule, construct, p.InstrPos(bad), "where %s has failed this function returns success: the operation goes on with a stand-in result (the old version, an empty list) and reports a requirement set that is not the one asked for; repeating the operation once the step succeeds changes the requirements again", cal.Name())
			} else {
				r.OK(rule, construct, p.InstrPos(call), "no return on the failing edge of %s reports success", cal.Name())
			}
		}
	}
	r.Floor(rule, n, 10, "fallible in-module calls in functions of internal/mvs that can fail")
}

// sameErr: a and b are the same error value (possibly seen through a phi of one value or a conversion).
func sameErr(a, b ssa.Value) bool {
	a, b = core.Unwrap(a), core.Unwrap(b)
	if a == b {
		return true
	}
	if ph, ok := a.(*ssa.Phi); ok {
		for _, e := range ph.Edges {
			if core.Unwrap(e) == b {
				return true
			}
		}
	}
	return false
}

// checkRewriteOnlyAfterSuccess (R19.10): get and tidy rewrite dawn.toml from a configuration they have changed in
// memory. The rewrite loses nothing only if every step that produced the new contents succeeded: at each call of
// WriteConfigFile outside package internal/project, every fallible in-module call of the same function from which the
// write is reachable is known to have returned a nil error (directly, or through the variable its error was merged
// into). An unchecked `newReqs, err = mvs.UpgradeAll(...)` hands a nil requirement set to the writer, and the file
// comes back without its [requirements] table while the command reports success.
func checkRewriteOnlyAfterSuccess(p *core.Prog, r *core.Result, rule string) {
	write := need(p, r, rule, "internal/project", "", "WriteConfigFile")
	if write == nil {
		return
	}
	n := 0
	// the write sites: the WriteConfigFile calls outside the configuration package, or - where the call sits in a helper
	// that does nothing fallible before it (a save method of an editor object) - the calls of that helper
	var sites []ssa.CallInstruction
	hasFallibleBefore := func(w ssa.CallInstruction) bool {
		win := w.(ssa.Instruction)
		for _, c := range core.Calls(win.Parent()) {
			call, ok := c.(*ssa.Call)
			if !ok || call == win {
				continue
			}
			cal := core.Callee(call)
			if cal == nil || !core.InModule(cal) {
				continue
			}
			cres := cal.Signature.Results()
			if cres.Len() >= 2 && isErrorType(cres.At(cres.Len()-1).Type()) && (call.Block() == win.Block() && core.Index(call) < core.Index(win) || call.Block() != win.Block() && core.Reaches(call.Block(), win.Block(), false)) {
				return true
			}
		}
		return false
	}
	var lift func(w ssa.CallInstruction, depth int)
	lift = func(w ssa.CallInstruction, depth int) {
		fn := w.Parent()
		if fn.Pkg != nil && fn.Pkg == write.Pkg {
			return
		}
		if hasFallibleBefore(w) || depth >= 2 || len(p.StaticCallers(fn)) == 0 {
			sites = append(sites, w)
			return
		}
		for _, cs := range p.StaticCallers(fn) {
			lift(cs, depth+1)
		}
	}
	for _, w := range p.StaticCallers(write) {
		lift(w, 0)
	}
	for _, w := range sites {
		win := w.(ssa.Instruction)
		fn := win.Parent()
		facts := p.FactsAt(win)
		knownNil := func(v ssa.Value) bool {
			nn, known := facts.ErrNonNil(v)
			return known && !nn
		}
		for _, c := range core.Calls(fn) {
			call, ok := c.(*ssa.Call)
			if !ok || call == win {
				continue
			}
			cal := core.Callee(call)
			if cal == nil || !core.InModule(cal) {
				continue
			}
			cres := cal.Signature.Results()
			if cres.Len() < 2 || !isErrorType(cres.At(cres.Len()-1).Type()) {
				continue
			}
			if call.Block() != win.Block() && !core.Reaches(call.Block(), win.Block(), false) {
				continue
			}
			if call.Block() == win.Block() && core.Index(call) > core.Index(win) {
				continue
			}
			n++
			construct := fmt.Sprintf("%s#write-after-%s", fname(fn), cal.Name())
			errv := extractOf(call, cres.Len()-1)
			ok = errv != nil && knownNil(errv)
			if !ok && errv != nil {
				// the error was merged into one variable with the errors of the alternative steps
				for _, ref := range *errv.Referrers() {
					if ph, isPhi := ref.(*ssa.Phi); isPhi && knownNil(ph) {
						ok = true
					}
				}
			}
			if !ok && errv != nil {
				// or tested inside its own branch: every path from the call to the write runs over the nil edge of a
				// test of this error
				for _, ref := range *errv.Referrers() {
					b, isB := ref.(*ssa.BinOp)
					if !isB || (b.Op != token.NEQ && b.Op != token.EQL) || !core.IsNilConst(b.Y) {
						continue
					}
					for _, bref := range *b.Referrers() {
						iff, isIf := bref.(*ssa.If)
						if !isIf || !core.Dominates(call, iff) {
							continue
						}
						failSucc := iff.Block().Succs[0]
						if b.Op == token.EQL {
							failSucc = iff.Block().Succs[1]
						}
						if len(failSucc.Preds) == 1 && failSucc != win.Block() && !core.Reaches(failSucc, win.Block(), false) {
							ok = true // the failing branch never comes to the write
						}
					}
				}
			}
			r.Check(ok, rule, construct, p.InstrPos(win), "the configuration file is rewritten only where "+cal.Name()+" is known to have succeeded",
				"the configuration file is rewritten although "+cal.Name()+" may have failed: its result (nil on failure) replaces the loaded requirements, so the rewritten dawn.toml loses its [requirements] table and the command reports success")
		}
	}
	r.Floor(rule, n, 3, "fallible steps before the rewrites of the configuration file")
}

// checkBuildLoadsBuildFiles (R13.7): a dry run predicts the real build of the same tree only if both decide on the same
// project. The targets of a project loaded from the saved index know nothing of the current build files (edited target
// bodies, always=True, generators of sources, flag arguments). So every command of cmd/dawn that goes on to run targets
// (Project.Run / Project.Watch through the workspace) loads the project with the index argument constantly false -
// in particular not with the dry-run flag.
func checkBuildLoadsBuildFiles(p *core.Prog, r *core.Result, rule string) {
	loadProject := need(p, r, rule, "cmd/dawn", "workspace", "loadProject")
	if loadProject == nil {
		return
	}
	n := 0
	for _, ls := range loadSitesOfRunners(p, loadProject) {
		in := ls.Site.(ssa.Instruction)
		fn := in.Parent()
		n++
		construct := fmt.Sprintf("%s#loadProject-%d:from-build-files", fname(fn), n)
		b, isConst := core.ConstBool(ls.Index)
		r.Check(isConst && !b, rule, construct, p.InstrPos(in), "a command that runs targets loads the project from its build files (index = false)",
			"a command that runs targets may load the project from the saved index: index targets know nothing of the current build files (edited bodies, always=True, generated sources, flag arguments), so a dry run decided on them reports up to date what the real build of the same tree executes")
	}
	r.Floor(rule, n, 2, "loadProject calls of commands that run targets")
}

// checkFailureRecordCarriesNoStamp (R15.12): the state-file decoder ignores member names it does not know, so one
// damaged byte in the name of the `rerun` member of a failed target's record makes the flag vanish without any decode
// error. That is harmless as long as such a record has nothing else a later build would accept: the record written
// when the body fails is built from scratch (not from the loaded record) and sets no member besides the documentation,
// the dependencies' stamps and the re-run flag. Then a record whose flag is lost reads as "never run".
func checkFailureRecordCarriesNoStamp(p *core.Prog, r *core.Result, rule string) {
	m := buildEvalModel(p, r, rule)
	if m == nil {
		return
	}
	if m.Evaluate == nil {
		r.Unk(rule, "dawn.(*runTarget).Evaluate#failure-record", p.Pos(m.Fn.Pos()), "the body evaluation was not recognised")
		return
	}
	evalErr := extractOf(m.Evaluate, 2)
	allowed := map[string]bool{"Doc": true, "Dependencies": true, "Rerun": true}
	n := 0
	for i, w := range m.recordWrites() {
		s, lit := w.Site, w.Lit
		nn, known := p.FactsAt(s).ErrNonNil(evalErr)
		failure := known && nn
		if !failure && !m.dom(m.Evaluate, s) {
			// a record written before the body ran can only be a forced re-run record
			failure = true
		}
		if !failure {
			continue
		}
		n++
		construct := fmt.Sprintf("dawn.(*runTarget).Evaluate#record-write-%d:failure-record-bare", i+1)
		var extra []string
		for name, v := range lit.Fields {
			if allowed[name] {
				continue
			}
			if c, isConst := v.(*ssa.Const); isConst && (c.Value == nil || c.Value.String() == `""` || c.Value.String() == "false") {
				continue
			}
			extra = append(extra, name)
		}
		sort.Strings(extra)
		switch {
		case len(lit.Whole) > 0:
			r.Bad(rule, construct, p.InstrPos(s), "the record written for a failed target is derived from an existing record: it keeps the stamps of the last success, so the re-run flag is all that separates it from an up-to-date record - and the decoder ignores member names it does not know, so one damaged byte in that member's name (\"rdrun\") loads without error as a target that is up to date")
		case len(extra) > 0:
			r.Bad(rule, construct, p.InstrPos(s), "the record written for a failed target also sets %s: with the stamps of a success in it, the re-run flag is all that separates it from an up-to-date record, and a damaged member name makes the flag vanish without a decode error", strings.Join(extra, ", "))
		case len(lit.Fields) == 0:
			r.Unk(rule, construct, p.InstrPos(s), "the record written for a failed target is not built where the checker can see it (neither a literal nor a constructor of the package)")
		default:
			r.OK(rule, construct, p.InstrPos(s), "the record of a failed target is built from scratch with the documentation, the dependencies' stamps and the re-run flag only")
		}
	}
	r.Floor(rule, n, 1, "record writes on the failure path")
}

// checkAttrsNotGenerative (R8.15): a value that is not one of the kinds the encoder knows is written attribute by
// attribute (HasAttrs: every name of AttrNames), and the only thing that stops the walk is the memo, which recognises an
// object it has already met by identity. An attribute that answers with a newly allocated attribute-bearing object each
// time it is asked (label.parent building a new *Label, whose own parent is again new, the root's parent being a root)
// is an unbounded structure: fingerprinting a function that references such a value never terminates (the process dies
// of stack exhaustion, no TargetFailed event). So no Attr method of a module type returns a freshly allocated object of
// a module type that has attributes itself.
func checkAttrsNotGenerative(p *core.Prog, r *core.Result, rule string) {
	hasAttrs := func(t types.Type) bool {
		ms := p.SSA.MethodSets.MethodSet(t)
		return ms.Lookup(nil, "Attr") != nil && ms.Lookup(nil, "AttrNames") != nil
	}
	var mayBeFresh func(v ssa.Value, depth int, seen map[ssa.Value]bool) ssa.Value
	mayBeFresh = func(v ssa.Value, depth int, seen map[ssa.Value]bool) ssa.Value {
		if v == nil || seen[v] || depth > 4 {
			return nil
		}
		seen[v] = true
		switch x := v.(type) {
		case *ssa.Alloc:
			if x.Heap {
				return x
			}
		case *ssa.MakeInterface:
			return mayBeFresh(x.X, depth, seen)
		case *ssa.ChangeType:
			return mayBeFresh(x.X, depth, seen)
		case *ssa.ChangeInterface:
			return mayBeFresh(x.X, depth, seen)
		case *ssa.Phi:
			for _, e := range x.Edges {
				if f := mayBeFresh(e, depth, seen); f != nil {
					return f
				}
			}
		case *ssa.Extract:
			if c, ok := x.Tuple.(*ssa.Call); ok {
				if h := core.Callee(c); h != nil && core.InModule(h) && h.Blocks != nil {
					for _, ret := range core.ReturnsOf(h) {
						vals := core.RetVals(ret)
						if x.Index < len(vals) {
							if f := mayBeFresh(vals[x.Index], depth+1, seen); f != nil {
								return f
							}
						}
					}
				}
			}
		case *ssa.Call:
			if h := core.Callee(x); h != nil && core.InModule(h) && h.Blocks != nil {
				for _, ret := range core.ReturnsOf(h) {
					vals := core.RetVals(ret)
					if len(vals) > 0 {
						if f := mayBeFresh(vals[0], depth+1, seen); f != nil {
							return f
						}
					}
				}
			}
		}
		return nil
	}
	n := 0
	for _, fn := range p.ModuleFuncs() {
		if fn.Name() != "Attr" || fn.Signature.Recv() == nil || fn.Blocks == nil || fn.Signature.Params().Len() != 1 || fn.Signature.Results().Len() != 2 {
			continue
		}
		if !hasAttrs(fn.Signature.Recv().Type()) {
			continue
		}
		n++
		construct := fname(fn) + "#attributes-not-generative"
		var bad ssa.Value
		var at *ssa.Return
		for _, ret := range core.ReturnsOf(fn) {
			vals := core.RetVals(ret)
			if len(vals) != 2 {
				continue
			}
			f := mayBeFresh(vals[0], 0, map[ssa.Value]bool{})
			if f == nil {
				continue
			}
			if hasAttrs(f.Type()) {
				bad, at = f, ret
			}
		}
		if bad != nil {
			r.Bad(rule, construct, p.InstrPos(at), "an attribute of %s answers with a newly allocated %s, a type that has attributes itself: the encoder writes such values attribute by attribute and stops only at an object it has met before, so a value whose attributes are allocated on demand is an unbounded structure and fingerprinting a function that references it never terminates", fn.Signature.Recv().Type(), bad.Type())
		} else {
			r.OK(rule, construct, p.Pos(fn.Pos()), "no attribute is a newly allocated attribute-bearing object")
		}
	}
	r.Floor(rule, n, 3, "Attr methods of attribute-bearing module types")
}

// checkCommandFailureFailsBody (R3.11): a target body that runs a command through the library (os.exec, os.output, and
// sh.* on top of them) fails when the command did not complete successfully - that is what makes the runner record the
// target as "must re-run". For every call of (*exec.Cmd).Run / Wait / Output / CombinedOutput in the module: no return
// on the failing edge of that call reports success, unless the failure is turned into an exit code
// ((*exec.ExitError).ExitCode()) that every caller compares with zero by == / != only. ExitCode() is -1 for a process
// killed by a signal: `code > 0` lets a command that was killed half-way count as a success, the target is recorded
// as up to date on its partial output and no later build re-executes it.
func checkCommandFailureFailsBody(p *core.Prog, r *core.Result, rule string) {
	isCmdWait := func(c ssa.CallInstruction) bool {
		for _, name := range []string{"Run", "Wait", "Output", "CombinedOutput"} {
			if core.IsMethod(c, "os/exec", "Cmd", name) {
				return true
			}
		}
		return false
	}
	n := 0
	for _, fn := range p.ModuleFuncs() {
		if fn.Blocks == nil {
			continue
		}
		for _, c := range core.Calls(fn) {
			call, ok := c.(*ssa.Call)
			if !ok || !isCmdWait(c) {
				continue
			}
			n++
			construct := fmt.Sprintf("%s#command-%d:failure-fails-body", fname(fn), n)
			var errv ssa.Value = call
			if tup, isTuple := call.Type().(*types.Tuple); isTuple {
				errv = extractOf(call, tup.Len()-1)
			}
			res := fn.Signature.Results()
			if errv == nil || res.Len() == 0 || !isErrorType(res.At(res.Len()-1).Type()) {
				r.Bad(rule, construct, p.InstrPos(call), "the outcome of the command cannot fail the caller: its error is dropped or the function has no error result")
				continue
			}
			verdict, detail := "ok", ""
			for _, ret := range core.ReturnsOf(fn) {
				nn, known := p.FactsAt(ret).ErrNonNil(errv)
				failing := known && nn
				if !failing {
					// errors.As(err, &exit) / errors.Is(err, x) holding implies a failed command as well
					failing = p.FactsAt(ret).Find(func(cond ssa.Value, val bool) bool {
						ic, ok := cond.(*ssa.Call)
						return ok && val && (core.IsCallTo(ic, "errors", "Is") || core.IsCallTo(ic, "errors", "As")) && len(ic.Call.Args) == 2 && sameErr(ic.Call.Args[0], errv)
					})
				}
				if !failing {
					continue
				}
				vals := core.RetVals(ret)
				if len(vals) == 0 || !core.IsNilConst(vals[len(vals)-1]) {
					continue
				}
				// success is reported although the command failed: only as an exit code handed to the callers
				k := -1
				isExitCode := func(x ssa.Value) bool {
					ec, isCall := x.(*ssa.Call)
					return isCall && (core.IsMethod(ec, "os/exec", "ExitError", "ExitCode") || core.IsMethod(ec, "os", "ProcessState", "ExitCode"))
				}
				for i, v := range vals[:len(vals)-1] {
					if isExitCode(core.Unwrap(v)) || core.DependsOn(v, core.SliceOpts{Stores: true}, isExitCode) {
						k = i
					}
				}
				if k < 0 {
					verdict, detail = "bad", fmt.Sprintf("the return at %s reports success where the command has failed", p.InstrPos(ret))
					break
				}
				sites := p.StaticCallers(fn)
				if len(sites) == 0 || len(p.FuncValueUses(fn)) > 0 {
					verdict, detail = "unk", "the function that turns the failure into an exit code has callers the checker cannot enumerate"
					break
				}
				for _, s := range sites {
					sc, isCall := s.(*ssa.Call)
					if !isCall {
						verdict, detail = "bad", "the exit code is dropped at "+p.InstrPos(s.(ssa.Instruction))
						continue
					}
					code := extractOf(sc, k)
					eq, ordered := 0, ""
					if code != nil {
						for _, ref := range *code.Referrers() {
							b, isB := ref.(*ssa.BinOp)
							if !isB {
								continue
							}
							other := b.Y
							if other == code {
								other = b.X
							}
							if _, isConst := core.ConstInt(other); !isConst {
								continue
							}
							switch b.Op {
							case token.EQL, token.NEQ:
								eq++
							case token.LSS, token.GTR, token.LEQ, token.GEQ:
								ordered = p.InstrPos(b)
							}
						}
					}
					switch {
					case ordered != "":
						verdict, detail = "bad", fmt.Sprintf("the exit code returned by %s is compared by an ordering test at %s: ExitCode() is -1 for a process killed by a signal, so a command that was killed half-way counts as a success", fn.Name(), ordered)
					case eq == 0 && verdict == "ok":
						verdict, detail = "bad", fmt.Sprintf("the exit code returned by %s is never compared with zero at %s", fn.Name(), p.InstrPos(sc))
					}
				}
			}
			switch verdict {
			case "ok":
				r.OK(rule, construct, p.InstrPos(call), "a command that does not complete successfully fails the caller (or is handed on as an exit code that is compared with zero by ==/!= only)")
			case "unk":
				r.Unk(rule, construct, p.InstrPos(call), "%s", detail)
			default:
				r.Bad(rule, construct, p.InstrPos(call), "%s: the body returns normally, the target is recorded as up to date on the command's partial output and no later build re-executes it", detail)
			}
		}
	}
	r.Floor(rule, n, 1, "commands run by the library (exec.Cmd Run/Wait/Output)")
}

// checkThreadCwdClean (R17.12): os.glob matches the walked paths relative to the thread's working directory, and makes
// them relative by cutting `cwd + separator` off their front - which works only for a clean cwd (no trailing separator):
// otherwise nothing is cut, `*` and `?` patterns select nothing, `**` patterns return absolute paths and excludes never
// apply. So every working directory handed to util.Chdir is the result of filepath.Join, Dir, Clean or Abs (which all
// return clean paths), not a hand-built concatenation.
func checkThreadCwdClean(p *core.Prog, r *core.Result, rule string) {
	chdir := need(p, r, rule, "util", "", "Chdir")
	if chdir == nil {
		return
	}
	var cleanSource func(v ssa.Value, depth int, seen map[ssa.Value]bool) (bool, string)
	cleanSource = func(v ssa.Value, depth int, seen map[ssa.Value]bool) (bool, string) {
		v = core.Unwrap(v)
		if seen[v] || depth > 4 {
			return true, ""
		}
		seen[v] = true
		switch x := v.(type) {
		case *ssa.Call:
			for _, name := range []string{"Join", "Dir", "Clean", "Abs"} {
				if core.IsCallTo(x, "path/filepath", name) {
					return true, ""
				}
			}
			if h := core.Callee(x); h != nil && core.InModule(h) && h.Blocks != nil {
				for _, ret := range core.ReturnsOf(h) {
					vals := core.RetVals(ret)
					if len(vals) == 0 {
						continue
					}
					if ok, why := cleanSource(vals[0], depth+1, seen); !ok {
						return false, why
					}
				}
				return true, ""
			}
		case *ssa.Extract:
			if c, isCall := x.Tuple.(*ssa.Call); isCall && core.IsCallTo(c, "path/filepath", "Abs") {
				return true, ""
			}
		case *ssa.Phi:
			for _, e := range x.Edges {
				if ok, why := cleanSource(e, depth+1, seen); !ok {
					return false, why
				}
			}
			return true, ""
		case *ssa.Parameter:
			fn := x.Parent()
			sites := p.StaticCallers(fn)
			i := paramIndex(fn, x)
			if len(sites) == 0 || i < 0 || len(p.FuncValueUses(fn)) > 0 {
				return false, "a parameter whose callers cannot be enumerated"
			}
			for _, s := range sites {
				if i >= len(s.Common().Args) {
					return false, "a parameter"
				}
				if ok, why := cleanSource(s.Common().Args[i], depth+1, seen); !ok {
					return false, why
				}
			}
			return true, ""
		}
		return false, strings.TrimSpace(v.String())
	}
	n := 0
	for _, c := range p.StaticCallers(chdir) {
		in := c.(ssa.Instruction)
		n++
		construct := fmt.Sprintf("%s#chdir-%d:clean-path", fname(in.Parent()), n)
		args := c.Common().Args
		ok, why := cleanSource(args[len(args)-1], 0, map[ssa.Value]bool{})
		if ok {
			r.OK(rule, construct, p.InstrPos(in), "the working directory is the result of filepath.Join/Dir/Clean/Abs")
		} else {
			r.Bad(rule, construct, p.InstrPos(in), "the working directory handed to the thread is built by hand (%s) rather than by filepath.Join/Dir/Clean/Abs: os.glob cuts `cwd + separator` off the walked paths, so with a cwd that ends in a separator (the root package: root + \"/\") nothing is cut and the patterns are matched against absolute paths - `*` and `?` select nothing, `**` returns absolute paths, excludes never apply", why)
		}
	}
	r.Floor(rule, n, 2, "util.Chdir call sites")
}

// checkEntriesHashedWhateverTheirKind (R1.16): the sum of a source directory covers the contents of every entry the
// walk meets. Whether an entry's contents are hashed does not depend on the kind the directory listing reports for it
// (fs.DirEntry.Type / IsDir / Info, os.Lstat): those do not follow symbolic links, so a kind test on them takes every
// link for "neither a file nor a directory" and covers it by its name alone - an edit behind a link, or a link that is
// re-pointed, leaves the directory's sum unchanged and its dependents are not re-run.
func checkEntriesHashedWhateverTheirKind(p *core.Prog, r *core.Result, rule string) {
	isLstatKind := func(v ssa.Value) bool {
		c, ok := v.(*ssa.Call)
		if !ok {
			return false
		}
		cc := c.Common()
		if cc.IsInvoke() {
			if n, isNamed := types.Unalias(cc.Value.Type()).(*types.Named); isNamed && n.Obj().Pkg() != nil && n.Obj().Pkg().Path() == "io/fs" && n.Obj().Name() == "DirEntry" {
				switch cc.Method.Name() {
				case "Type", "IsDir", "Info":
					return true
				}
			}
			return false
		}
		return core.IsCallTo(c, "os", "Lstat")
	}
	isLoopCond := func(g govCond) bool {
		switch c := g.Cond.(type) {
		case *ssa.Extract:
			_, isNext := c.Tuple.(*ssa.Next)
			return isNext && c.Index == 0
		case *ssa.BinOp:
			x := c.X
			if inc, isInc := x.(*ssa.BinOp); isInc && inc.Op == token.ADD {
				x = inc.X
			}
			_, isPhi := x.(*ssa.Phi)
			return isPhi && (c.Op == token.LSS || c.Op == token.GTR || c.Op == token.NEQ)
		}
		return false
	}
	// the content-hashing functions of package dawn: (string, error) functions that reach util.SHA256 or feed a hash
	sums := map[*ssa.Function]bool{}
	for _, fn := range p.ModuleFuncs() {
		if fn.Pkg == nil || fn.Pkg.Pkg.Path() != pkgRoot || fn.Blocks == nil {
			continue
		}
		res := fn.Signature.Results()
		if res.Len() != 2 || res.At(0).Type().String() != "string" || !isErrorType(res.At(1).Type()) {
			continue
		}
		for f := range staticClosure(p, fn) {
			for _, c := range core.Calls(f) {
				if _, feeds := hashFeed(c); feeds {
					sums[fn] = true
				}
				if cal := core.Callee(c); cal != nil && cal.Name() == "SHA256" && cal.Pkg != nil && cal.Pkg.Pkg.Path() == pkgUtil {
					sums[fn] = true
				}
			}
		}
	}
	n := 0
	for _, fn := range p.ModuleFuncs() {
		if fn.Pkg == nil || fn.Pkg.Pkg.Path() != pkgRoot || fn.Blocks == nil {
			continue
		}
		if _, _, lists := dirListing(fn); !lists {
			continue
		}
		for _, c := range core.Calls(fn) {
			cal := core.Callee(c)
			if cal == nil || !sums[cal] {
				continue
			}
			in := c.(ssa.Instruction)
			conds, inLoop := governingConds(in, isLoopCond)
			if !inLoop {
				continue
			}
			n++
			construct := fmt.Sprintf("%s#entry-contents-%d:whatever-kind", fname(fn), n)
			bad := ""
			for _, g := range conds {
				if core.DependsOn(g.Cond, core.SliceOpts{Stores: true, ThroughCall: func(*ssa.Call) bool { return true }}, isLstatKind) || isLstatKind(g.Cond) {
					bad = strings.TrimSpace(g.Cond.String())
				}
			}
			if bad != "" {
				r.Bad(rule, construct, p.InstrPos(in), "whether an entry's contents are hashed depends on the kind the directory listing reports for it (%s): the listing does not follow symbolic links, so every link in a source directory is covered by its name alone - an edit behind the link, or a re-pointed link, leaves the directory's sum unchanged and the dependents are not re-run", bad)
			} else {
				r.OK(rule, construct, p.InstrPos(in), "every entry of the listing is hashed through %s, whatever kind the listing reports for it", cal.Name())
			}
		}
	}
	r.Floor(rule, n, 1, "per-entry content hashes in directory walks")
}

// checkCleanResultsFromScanner: every successful result of label.Clean is the empty string (for the empty package) or
// what its scanner wrote (the string of the lazybuf, which R12.8 shows to carry separators only in front of elements).
// A result that is the argument itself, returned on a shortcut that did not scan it, is canonical only if the
// shortcut's predicate is exactly right - `//lib/` passing for clean gives the file lib/BUILD.dawn two registry keys
// (module://lib:… and module://lib/:…), so it is executed twice and its targets exist twice.
func checkCleanResultsFromScanner(p *core.Prog, r *core.Result, rule string) {
	clean := need(p, r, rule, "label", "", "Clean")
	if clean == nil {
		return
	}
	n := 0
	for _, ret := range core.ReturnsOf(clean) {
		vals := core.RetVals(ret)
		if len(vals) != 2 || !core.IsNilConst(vals[1]) {
			continue
		}
		n++
		construct := fmt.Sprintf("label.Clean#result-%d:from-scanner", n)
		v := core.Unwrap(vals[0])
		ok := false
		switch x := v.(type) {
		case *ssa.Const:
			ok = true
		case *ssa.Call:
			if h := core.Callee(x); h != nil && recvNamed(h) == "lazybuf" {
				ok = true
			}
		}
		if ok {
			r.OK(rule, construct, p.InstrPos(ret), "the result is a constant or the string the scanner wrote")
		} else {
			r.Bad(rule, construct, p.InstrPos(ret), "Clean hands back a value that its scanner did not write (%s): a package that is returned unexamined on a shortcut is canonical only if the shortcut's test is exactly right; a spelling that slips through (`//lib/`) gives one file two labels, hence two entries in the module and target tables - the file is executed twice", strings.TrimSpace(v.String()))
		}
	}
	r.Floor(rule, n, 2, "successful returns of label.Clean")
}

// checkRemovedDependenciesSeen (R1.17): the sources and dependencies a target declares are handed to its function
// (self.sources, self.dependencies), so what it produced may depend on one that has since been removed from the list
// (an entry deleted from sources=[...], a file that glob() no longer matches). The dependency loop only visits what is
// declared now; so Evaluate also walks the dependencies the last execution recorded (targetInfo.Dependencies) and
// marks the target's dependencies out of date where one of them is not among the current ones.
func checkRemovedDependenciesSeen(p *core.Prog, r *core.Result, rule string) {
	m := buildEvalModel(p, r, rule)
	if m == nil {
		return
	}
	scope := map[*ssa.Function]bool{m.Fn: true}
	if m.DepsFn != nil {
		scope[m.DepsFn] = true
	}
	for _, h := range m.Helpers {
		scope[h] = true
	}
	fromRecorded := func(k ssa.Value) bool {
		return core.DependsOn(k, core.SliceOpts{}, func(v ssa.Value) bool {
			nx, ok := v.(*ssa.Next)
			if !ok {
				return false
			}
			rg, ok := nx.Iter.(*ssa.Range)
			return ok && isRecordedDependencies(p, rg.X, 0)
		})
	}
	var found ssa.Instruction
	for fn := range scope {
		core.Instrs(fn, func(in ssa.Instruction) {
			marks := false
			switch x := in.(type) {
			case *ssa.Call:
				if b, ok := x.Call.Value.(*ssa.Builtin); ok && b.Name() == "append" {
					marks = true
				}
			case *ssa.Store:
				if b, isConst := core.ConstBool(x.Val); isConst && !b {
					marks = true
				}
			case *ssa.Jump:
				// a constant false flowing into a phi from this block
				for _, sc := range x.Block().Succs {
					for _, pin := range sc.Instrs {
						ph, isPhi := pin.(*ssa.Phi)
						if !isPhi {
							break
						}
						for i, pred := range sc.Preds {
							if pred == x.Block() {
								if b, isConst := core.ConstBool(ph.Edges[i]); isConst && !b {
									marks = true
								}
							}
						}
					}
				}
			}
			if !marks {
				return
			}
			if p.FactsAt(in).Find(func(c ssa.Value, val bool) bool {
				e, ok := c.(*ssa.Extract)
				if !ok || e.Index != 1 || val {
					return false
				}
				lk, ok := e.Tuple.(*ssa.Lookup)
				return ok && lk.CommaOk && fromRecorded(lk.Index) && !isRecordedDependencies(p, lk.X, 0)
			}) {
				found = in
			}
		})
	}
	construct := "dawn.(*runTarget).Evaluate#removed-dependency-marks-out-of-date"
	if found != nil {
		r.OK(rule, construct, p.InstrPos(found), "a dependency recorded by the last execution that is not among the current ones marks the dependencies out of date")
	} else {
		r.Bad(rule, construct, p.Pos(m.Fn.Pos()), "Evaluate never looks at the dependencies the last execution recorded but the target no longer declares: removing an entry from sources=[...] (or deleting a file matched by glob()) does not re-run the target although its function is handed the list, so the incremental build keeps outputs computed from the removed source where a from-scratch build of the same tree does not")
	}
}

// checkTargetPrintThroughLineBuffer (R18.15): the output of the processes a target runs reaches the Print event through
// the target's line buffer, which holds an unterminated line back. What the target's own print() writes must go the
// same way: the Print callback of a target's thread (a closure stored into starlark.Thread.Print by a method of
// *function) writes to a *lineWriter and does not invoke Events.Print itself - otherwise print("x") behind
// `printf abc` is delivered before "abc", i.e. the target's output is not delivered in order.
func checkTargetPrintThroughLineBuffer(p *core.Prog, r *core.Result, rule string) {
	isLineWriter := func(v ssa.Value) bool {
		v = core.Unwrap(v)
		if mi, ok := v.(*ssa.MakeInterface); ok {
			v = mi.X
		}
		pt, ok := v.Type().Underlying().(*types.Pointer)
		if !ok {
			return false
		}
		n, ok := pt.Elem().(*types.Named)
		return ok && n.Obj().Name() == "lineWriter" && n.Obj().Pkg() != nil && n.Obj().Pkg().Path() == pkgRoot
	}
	n := 0
	for _, fn := range p.ModuleFuncs() {
		if fn.Pkg == nil || fn.Pkg.Pkg.Path() != pkgRoot || recvNamed(fn) != "function" {
			continue
		}
		core.Instrs(fn, func(in ssa.Instruction) {
			st, ok := in.(*ssa.Store)
			if !ok {
				return
			}
			owner, field := core.FieldOf(st.Addr)
			if owner == nil || field != "Print" || owner.Obj().Name() != "Thread" || owner.Obj().Pkg() == nil || !strings.HasSuffix(owner.Obj().Pkg().Path(), "starlark") {
				return
			}
			n++
			construct := fmt.Sprintf("%s#thread-print-%d:through-line-buffer", fname(fn), n)
			mc, ok := st.Val.(*ssa.MakeClosure)
			var cl *ssa.Function
			if ok {
				cl, _ = mc.Fn.(*ssa.Function)
			} else if f, isF := st.Val.(*ssa.Function); isF {
				cl = f
			}
			if cl == nil {
				r.Unk(rule, construct, p.InstrPos(st), "the Print callback of the target's thread is not a function literal")
				return
			}
			direct, buffered := false, false
			for f := range staticClosure(p, cl) {
				if recvNamed(f) == "lineWriter" {
					continue
				}
				for _, c := range core.Calls(f) {
					cc := c.Common()
					if cc.IsInvoke() && cc.Method.Name() == "Print" {
						if nt, isNamed := cc.Value.Type().(*types.Named); isNamed && nt.Obj().Name() == "Events" {
							direct = true
						}
					}
					if core.IsMethod(c, pkgRoot, "lineWriter", "Write") {
						buffered = true
					}
					if cal := core.Callee(c); cal != nil && cal.Pkg != nil && cal.Pkg.Pkg.Path() == "fmt" && strings.HasPrefix(cal.Name(), "Fprint") && len(cc.Args) > 0 && isLineWriter(cc.Args[0]) {
						buffered = true
					}
				}
			}
			switch {
			case direct:
				r.Bad(rule, construct, p.InstrPos(st), "print() of a target goes straight to the Print event while the output of the processes it runs waits in the target's line buffer for its newline: print(\"x\") behind `printf abc` is delivered before \"abc\" - the target's output is not delivered in order")
			case buffered:
				r.OK(rule, construct, p.InstrPos(st), "print() of a target is written to the target's line buffer, like the output of its processes")
			default:
				r.Unk(rule, construct, p.InstrPos(st), "the Print callback neither writes to a lineWriter nor invokes Events.Print")
			}
		})
	}
	r.Floor(rule, n, 1, "Print callbacks of target threads")
}

// checkLabelErrorsNotDropped (R6.14): a label that could not be formed is not a label. In package dawn every call of a
// label constructor that can fail (label.Join, Parse, New, Clean, (*Label).RelativeTo) has its error looked at before
// the result is used: the package walk joins directory names onto package paths, and a name no label can contain (a
// ':') gives the empty package - the recursive walk then slices path[2:] of "" and Load crashes on an acyclic project.
// Exempt, by construction: a RelativeTo call whose argument is the Package field of a label (both operands are then
// results of label.Clean, R12.6, for which Join cannot fail).
func checkLabelErrorsNotDropped(p *core.Prog, r *core.Result, rule string) {
	// exempt, by construction: (*Label).RelativeTo(pkg) where pkg is read from the Package field of a Label - the
	// receiver's package and the argument are then both Clean results (R12.6), for which Join cannot fail
	exemptCall := func(call *ssa.Call, cal *ssa.Function) string {
		if cal.Name() != "RelativeTo" || len(call.Call.Args) != 2 {
			return ""
		}
		if core.LoadOfField(core.Unwrap(call.Call.Args[1]), pkgLabel, "Label", "Package") {
			return "both operands are Clean results (the receiver's package and the Package field of another label, R12.6): Join of two clean packages cannot fail"
		}
		return ""
	}
	n := 0
	seen := map[string]int{}
	for _, fn := range p.ModuleFuncs() {
		if fn.Pkg == nil || fn.Pkg.Pkg.Path() != pkgRoot || fn.Blocks == nil {
			continue
		}
		for _, c := range core.Calls(fn) {
			call, ok := c.(*ssa.Call)
			if !ok {
				continue
			}
			cal := core.Callee(call)
			if cal == nil || cal.Pkg == nil || cal.Pkg.Pkg.Path() != pkgLabel {
				continue
			}
			res := cal.Signature.Results()
			if res.Len() != 2 || !isErrorType(res.At(1).Type()) {
				continue
			}
			n++
			key := fmt.Sprintf("%s#%s", fname(fn), cal.Name())
			seen[key]++
			construct := key
			if seen[key] > 1 {
				construct = fmt.Sprintf("%s-%d", key, seen[key])
			}
			errv := extractOf(call, 1)
			used := false
			if errv != nil {
				for _, ref := range *errv.Referrers() {
					if _, dbg := ref.(*ssa.DebugRef); !dbg {
						used = true
					}
				}
			}
			resultUsed := false
			if v := extractOf(call, 0); v != nil {
				for _, ref := range *v.Referrers() {
					if _, dbg := ref.(*ssa.DebugRef); !dbg {
						resultUsed = true
					}
				}
			}
			switch {
			case used || !resultUsed:
				r.OK(rule, construct, p.InstrPos(call), "the error of %s is looked at", cal.Name())
			case exemptCall(call, cal) != "":
				r.OK(rule, construct, p.InstrPos(call), "exempt: %s", exemptCall(call, cal))
			default:
				r.Bad(rule, construct, p.InstrPos(call), "the error of label.%s is dropped and its result used: for an operand no label can contain (a directory name with a ':') the result is the zero value, and what follows works on a package that does not exist - the package walk slices path[2:] of the empty package and Load crashes on an acyclic project", cal.Name())
			}
		}
	}
	r.Floor(rule, n, 5, "fallible label constructors called in package dawn")
}

// checkPendingRecordBeforeBody (R3.12): when a body starts, the record on disk no longer says "up to date". The reason a
// target runs for need not outlast the process (a generated file that was missing, a forced build), so if the process
// dies inside the body the record of the last successful run would vouch for half-written outputs and no later build
// would complete them. Evaluate therefore writes a record with Rerun = true before it invokes Target.evaluate(), and
// goes on to the body only where that write succeeded.
func checkPendingRecordBeforeBody(p *core.Prog, r *core.Result, rule string) {
	m := buildEvalModel(p, r, rule)
	if m == nil {
		return
	}
	construct := "dawn.(*runTarget).Evaluate#pending-record-before-body"
	if m.Evaluate == nil {
		r.Unk(rule, construct, p.Pos(m.Fn.Pos()), "the body evaluation was not recognised")
		return
	}
	errSites := map[*ssa.Call]bool{}
	for _, s := range m.saveErrSites() {
		errSites[s] = true
	}
	var found *ssa.Call
	for _, w := range m.recordWrites() {
		s, lit := w.Site, w.Lit
		if !m.dom(s, m.Evaluate) {
			continue
		}
		rr, okc := core.ConstBool(lit.Fields["Rerun"])
		if !okc || !rr || (len(lit.Whole) != 0 && !lit.After["Rerun"]) {
			continue
		}
		// the body runs only where the write succeeded
		if errSites[s] {
			if nn, known := p.FactsAt(m.Evaluate).ErrNonNil(s); known && !nn {
				found = s
			}
		}
	}
	if found != nil {
		r.OK(rule, construct, p.InstrPos(found), "a record with Rerun = true is written, and known to be written, before Target.evaluate() is invoked")
	} else {
		r.Bad(rule, construct, p.InstrPos(m.Evaluate), "the body starts while the record of the last successful run is still on disk: a target re-executed because its generated file was missing (or because the build was forced) and interrupted inside its body is found up to date by the next build - record intact, inputs unchanged, half-written output present - and is never completed")
	}
}

// checkModuleErrorsNotPickedAtRandom (R6.15): a load whose graph is cyclic fails with the cyclic-dependency error whatever
// else went wrong. Project.load therefore does not return the error of the first failed module that a range over the
// module table happens to meet (Go randomises map iteration: with an unrelated module that fails as well, most loads
// report only that one); the errors of the failed modules are collected and returned together.
func checkModuleErrorsNotPickedAtRandom(p *core.Prog, r *core.Result, rule string) {
	load := need(p, r, rule, "", "Project", "load")
	if load == nil {
		return
	}
	n := 0
	for fn := range staticClosure(p, load) {
		if fn.Pkg != load.Pkg {
			continue
		}
		for _, ret := range core.ReturnsOf(fn) {
			vals := core.RetVals(ret)
			if len(vals) == 0 {
				continue
			}
			v := core.Unwrap(vals[len(vals)-1])
			if !core.LoadOfField(v, pkgRoot, "module", "err") {
				continue
			}
			n++
			// is the module an element of a range over the module table?
			fromRange := core.DependsOn(v, core.SliceOpts{}, func(x ssa.Value) bool {
				nx, ok := x.(*ssa.Next)
				if !ok {
					return false
				}
				rg, ok := nx.Iter.(*ssa.Range)
				return ok && core.LoadOfField(rg.X, pkgRoot, "Project", "modules")
			})
			construct := fmt.Sprintf("%s#returns-module-error-%d", fname(fn), n)
			if fromRange {
				r.Bad(rule, construct, p.InstrPos(ret), "the load returns the error of whichever failed module the iteration over the module table meets first: map iteration is random, so a cyclic load graph next to an unrelated module that fails is reported, in most runs, without any cyclic-dependency error")
			} else {
				r.OK(rule, construct, p.InstrPos(ret), "the returned module error is not picked by map iteration order")
			}
		}
	}
	// the errors are read somewhere in the load (collected)
	reads := 0
	for fn := range staticClosure(p, load) {
		core.Instrs(fn, func(in ssa.Instruction) {
			if u, ok := in.(*ssa.UnOp); ok && core.LoadOfField(u, pkgRoot, "module", "err") && fn.Pkg == load.Pkg && recvNamed(fn) == "Project" {
				reads++
			}
		})
	}
	r.Floor(rule, reads, 1, "reads of module.err in Project.load and the Project methods it calls")
}

// loadSite is a call of (*workspace).loadProject seen from a command that goes on to run targets: Site is the call in
// the command (the loadProject call itself, or the call of a wrapper such as loadForTarget(args)), Index the value the
// index parameter receives there.
type loadSite struct {
	Site  ssa.CallInstruction
	Index ssa.Value
}

func loadSitesOfRunners(p *core.Prog, lp *ssa.Function) []loadSite {
	runs := func(f *ssa.Function) bool {
		for g := range staticClosure(p, f) {
			for _, c2 := range core.Calls(g) {
				if cal := core.Callee(c2); cal != nil {
					k := core.CalleeKey(cal)
					if k == core.ModulePath+".(*Project).Run" || k == core.ModulePath+".(*Project).Watch" {
						return true
					}
				}
			}
		}
		return false
	}
	idxParam := -1
	for i, prm := range lp.Params {
		if prm.Name() == "index" {
			idxParam = i
		}
	}
	var out []loadSite
	var visit func(site ssa.CallInstruction, idx ssa.Value, depth int)
	visit = func(site ssa.CallInstruction, idx ssa.Value, depth int) {
		f := site.Parent()
		if runs(f) {
			out = append(out, loadSite{site, idx})
			return
		}
		if depth >= 2 || f.Pkg != lp.Pkg {
			return
		}
		// a wrapper around the load: look at it from its callers
		for _, cs := range p.StaticCallers(f) {
			v := idx
			if prm, isParam := idx.(*ssa.Parameter); isParam && prm.Parent() == f {
				if i := paramIndex(f, prm); i >= 0 && i < len(cs.Common().Args) {
					v = cs.Common().Args[i]
				}
			}
			visit(cs, v, depth+1)
		}
	}
	for _, c := range p.StaticCallers(lp) {
		args := c.Common().Args
		if idxParam < 0 || idxParam >= len(args) {
			continue
		}
		visit(c, args[idxParam], 0)
	}
	return out
}

// isRecordedDependencies: v is the Dependencies map of a persisted record - a load of targetInfo.Dependencies, or a
// parameter that every static caller fills with one.
func isRecordedDependencies(p *core.Prog, v ssa.Value, depth int) bool {
	v = core.Unwrap(v)
	if core.LoadOfField(v, pkgRoot, "targetInfo", "Dependencies") {
		return true
	}
	prm, ok := v.(*ssa.Parameter)
	if !ok || depth > 2 {
		return false
	}
	fn := prm.Parent()
	sites := p.StaticCallers(fn)
	i := paramIndex(fn, prm)
	if len(sites) == 0 || i < 0 {
		return false
	}
	for _, cs := range sites {
		if i >= len(cs.Common().Args) || !isRecordedDependencies(p, cs.Common().Args[i], depth+1) {
			return false
		}
	}
	return true
}

package rules

import (
	"fmt"
	"go/token"
	"go/types"
	"regexp"
	"regexp/syntax"
	"sort"
	"strings"

	"dawnverif/checker/core"

	"golang.org/x/tools/go/ssa"
)

func init() { register("C17", false, runC17) }

type gItem struct {
	Const string
	Echo  ssa.Value // non-nil: a byte variable is echoed
}

type gCond struct {
	Cond ssa.Value
	Val  bool
}

type gPath struct {
	Conds   []gCond
	Emits   []gItem
	Blocks  []*ssa.BasicBlock
	Returns *ssa.Return
	Advance int64 // increment of the inner index over one iteration (valid when Returns == nil)
	AdvOK   bool
}

// builderWrite classifies a call as a write to the strings.Builder b.
func builderWrite(c ssa.CallInstruction, b ssa.Value) (gItem, bool) {
	mc, ok := core.AsMethodCall(c)
	if !ok || mc.RecvPkg != "strings" || mc.RecvType != "Builder" || mc.Recv != b {
		return gItem{}, false
	}
	if len(c.Common().Args) < 2 {
		return gItem{}, false // String(), Len(), Reset() ...
	}
	arg := c.Common().Args[1]
	switch mc.Method {
	case "WriteRune", "WriteByte":
		if k, ok := core.ConstInt(arg); ok {
			return gItem{Const: string(rune(k))}, true
		}
		return gItem{Echo: arg}, true
	case "WriteString":
		if s, ok := core.ConstString(arg); ok {
			return gItem{Const: s}, true
		}
		return gItem{Echo: arg}, true
	}
	return gItem{}, false
}

func naturalLoop(h, t *ssa.BasicBlock) map[*ssa.BasicBlock]bool {
	loop := map[*ssa.BasicBlock]bool{h: true}
	stack := []*ssa.BasicBlock{t}
	for len(stack) > 0 {
		b := stack[len(stack)-1]
		stack = stack[:len(stack)-1]
		if loop[b] {
			continue
		}
		loop[b] = true
		stack = append(stack, b.Preds...)
	}
	return loop
}

func tmpl(items []gItem, cur, next ssa.Value) string {
	var sb strings.Builder
	for _, it := range items {
		switch {
		case it.Echo == nil:
			sb.WriteString(it.Const)
		case it.Echo == cur:
			sb.WriteString("<b>")
		case it.Echo == next:
			sb.WriteString("<c>")
		default:
			// g[i : i+2] with g[i] the current byte: the current byte and the one behind it, as they are
			if sl, ok := core.Unwrap(it.Echo).(*ssa.Slice); ok && cur != nil {
				if sx, sidx, ok := strIndex(cur); ok && sl.X == sx && sl.Low == sidx && sl.High != nil {
					if hb, ok := sl.High.(*ssa.BinOp); ok && hb.Op == token.ADD && hb.X == sidx {
						if k, ok := core.ConstInt(hb.Y); ok && k == 2 {
							sb.WriteString("<b><c>")
							continue
						}
					}
				}
			}
			sb.WriteString("<?>")
		}
	}
	return sb.String()
}

func runC17(p *core.Prog, r *core.Result) {
	r.Decided = []string{
		"R17.1 every byte that is echoed unescaped is not a regexp metacharacter (frozen: '[' and ']', which the function deliberately passes through as class delimiters)",
		"R17.2 bytes emitted behind a backslash are regexp punctuation, so the escape is literal",
		"R17.3 '*' -> [^/]*, '**' -> .* (consuming both stars), '?' -> one character, '\\\\x' -> literal x for x in \\\\ * ? [ ] and an error otherwise or at end of pattern",
		"R17.4 the emission skeleton for 1, 2 and 3 patterns parses to begin-text · (alternation of the per-pattern groups) · end-text: every alternative is anchored at both ends",
		"R17.5 callers match whole paths with MatchString only",
		"R17.8 the string handed to the compiled set is the walked path itself, at most prefix-stripped and separator-normalised by filepath.ToSlash: no character-rewriting function (strings.Replace*, Map, case folding, trimming of characters) lies between the file system and the match",
		"R17.7 a glob set is applied to each path separately: no directory walk prunes a subtree (SkipDir/SkipAll) depending on a match of the directory's own path",
		"R17.9 a glob() builtin returns a path only where that very string was matched by the include set and not matched by the exclude set: every element added to a result is added on the edge include.MatchString(x) && !exclude.MatchString(x) for the same x (no shortcut that answers a pattern from the file system, where path normalisation makes non-canonical spellings 'match')",
		"R17.10 a package is matched against the ignore set under its own path, as the label names it (a slice of the package label): no lexical normaliser of path or path/filepath (Rel, Clean, Join, ...) lies in between, since those never return the empty path of the root package but \".\"",
		"R17.11 every other character literally, whatever its encoding: the translation copies pattern bytes as bytes - no conversion of an integer (a byte of the pattern) to a string, which re-encodes every byte above 0x7f as a two-byte code point, so that a pattern with a non-ASCII character no longer matches the path that spells it",
		"R17.12 os.glob matches paths relative to the thread's working directory and makes them relative by cutting `cwd + separator` off the walked path, which is right only for a clean cwd: every working directory handed to util.Chdir is the result of filepath.Join, Dir, Clean or Abs (a hand-built `root + \"/\" + ...` that ends in a separator for the root package leaves the paths absolute: `*` selects nothing, `**` returns absolute paths, excludes never apply)",
		"R17.13 the ignore set matches what the patterns of dawn.toml say: nothing stores into Config.Ignore or its elements after the file was decoded, and the list compiled for the ignore set is the field itself (CleanPath, applied to patterns as it is to requirement paths, drops a trailing @v0/@v1 and rewrites ./ and //: `third_party/*@v1` would ignore every package below third_party)",
		"R17.6 the compiled set is a function of the given pattern list alone (no package-level state, every successful return is the compilation of this call's pattern)",
	}
	r.NotDecided = []string{"Go's regexp engine implements the parsed expression (trusted)", "'.' does not match newline in Go's default mode: paths are assumed to contain no newline", "the undocumented [...] character-class pass-through"}
	r.Assumptions = append(r.Assumptions, "paths contain no newline byte (regexp '.' excludes it)")

	fn := need(p, r, "R17.0", "util", "", "CompileGlobs")
	if fn == nil {
		return
	}
	pos := p.Pos(fn.Pos())
	// the builder whose String() feeds regexp.Compile
	var builder ssa.Value
	for _, c := range core.Calls(fn) {
		if core.IsCallTo(c, "regexp", "Compile") || core.IsCallTo(c, "regexp", "MustCompile") {
			if sc, ok := c.Common().Args[0].(*ssa.Call); ok && core.IsMethod(sc, "strings", "Builder", "String") {
				builder = sc.Call.Args[0]
			}
		}
	}
	if builder == nil {
		r.Unk("R17.4", "util.CompileGlobs#builder", pos, "unrecognised emission idiom: no strings.Builder whose String() is compiled by regexp.Compile")
		return
	}
	// loops
	type loopT struct {
		h, t   *ssa.BasicBlock
		blocks map[*ssa.BasicBlock]bool
	}
	loopsOf := func(f *ssa.Function) map[*ssa.BasicBlock]*loopT {
		var loops []loopT
		for _, t := range f.Blocks {
			for _, h := range t.Succs {
				if h.Dominates(t) {
					loops = append(loops, loopT{h, t, naturalLoop(h, t)})
				}
			}
		}
		byH := map[*ssa.BasicBlock]*loopT{}
		for i := range loops {
			l := &loops[i]
			if o, ok := byH[l.h]; ok {
				for b := range l.blocks {
					o.blocks[b] = true
				}
			} else {
				byH[l.h] = l
			}
		}
		return byH
	}
	byH := loopsOf(fn)
	var outer, inner *loopT
	for _, l := range byH {
		for _, m := range byH {
			if l != m && l.blocks[m.h] && len(l.blocks) > len(m.blocks) {
				outer, inner = l, m
			}
		}
	}
	// the per-byte translation may live in a helper called from the loop over the patterns
	tfn, tbuilder := fn, builder
	var bodyCall *ssa.Call
	if len(byH) == 1 {
		for _, l := range byH {
			outer = l
		}
		for _, c := range core.Calls(fn) {
			call, ok := c.(*ssa.Call)
			if !ok || !outer.blocks[call.Block()] {
				continue
			}
			h := core.Callee(call)
			if h == nil || !core.InModule(h) || h.Blocks == nil {
				continue
			}
			for ai, a := range call.Call.Args {
				if a == builder && ai < len(h.Params) {
					hl := loopsOf(h)
					if len(hl) == 1 {
						for _, l := range hl {
							inner = l
						}
						tfn, tbuilder, bodyCall = h, h.Params[ai], call
					}
				}
			}
		}
	}
	if outer == nil || inner == nil || (bodyCall == nil && len(byH) != 2) {
		r.Unk("R17.4", "util.CompileGlobs#loops", pos, "expected a loop over the patterns containing (directly, or through one helper taking the builder) a loop over the pattern bytes; found %d loop(s)", len(byH))
		return
	}
	// position of an emission relative to the per-pattern body
	inBody := func(in ssa.Instruction) bool { return bodyCall == nil && inner.blocks[in.Block()] }
	beforeBody := func(in ssa.Instruction) bool {
		b := in.Block()
		if bodyCall != nil {
			return core.Dominates(in, bodyCall) || core.InstrReaches(in, bodyCall) && !core.Dominates(bodyCall, in)
		}
		return b.Dominates(inner.h) || core.Reaches(b, inner.h, false) && !inner.h.Dominates(b)
	}
	afterBody := func(in ssa.Instruction) bool {
		if bodyCall != nil {
			return core.Dominates(bodyCall, in)
		}
		return inner.h.Dominates(in.Block())
	}
	bodyExitCond := func(f core.Fact) bool {
		if bodyCall != nil {
			// the helper's error was tested
			b, ok := f.Cond.(*ssa.BinOp)
			return ok && (b.X == ssa.Value(bodyCall) || b.Y == ssa.Value(bodyCall) || isExtractOf(b.X, bodyCall) || isExtractOf(b.Y, bodyCall))
		}
		iff, ok := inner.h.Instrs[len(inner.h.Instrs)-1].(*ssa.If)
		return ok && f.Cond == iff.Cond
	}
	bodyBaseFacts := func() core.FactSet {
		if bodyCall != nil {
			return p.FactsAt(bodyCall)
		}
		return p.Facts(fn)[inner.h]
	}
	// ---- R17.4 skeleton
	var pre, sep, open, close, post []string
	outerIdxConds := func(b *ssa.BasicBlock) (cond bool, isPositiveIdx bool) {
		// facts that are not shared with the outer loop's body entry
		base := p.Facts(fn)[outer.h]
		for f := range p.Facts(fn)[b] {
			if base[f] {
				continue
			}
			// ignore the loop's own continuation test
			if iff, ok := outer.h.Instrs[len(outer.h.Instrs)-1].(*ssa.If); ok && f.Cond == iff.Cond {
				continue
			}
			cond = true
			if bo, ok := f.Cond.(*ssa.BinOp); ok {
				if k, okk := core.ConstInt(bo.Y); okk {
					if (bo.Op == token.GTR && k == 0 && f.Val) || (bo.Op == token.NEQ && k == 0 && f.Val) || (bo.Op == token.GEQ && k == 1 && f.Val) || (bo.Op == token.EQL && k == 0 && !f.Val) || (bo.Op == token.LEQ && k == 0 && !f.Val) {
						// operand must be the outer induction value
						if _, isBin := bo.X.(*ssa.BinOp); isBin || isPhi(bo.X) {
							isPositiveIdx = true
						}
					}
				}
			}
		}
		return
	}
	unknownPlace := false
	for _, b := range fn.DomPreorder() {
		for _, in := range b.Instrs {
			c, ok := in.(ssa.CallInstruction)
			if !ok {
				continue
			}
			it, ok := builderWrite(c, builder)
			if !ok || inBody(in) {
				continue
			}
			if it.Echo != nil {
				unknownPlace = true
				continue
			}
			switch {
			case !outer.blocks[b] && b.Dominates(outer.h):
				pre = append(pre, it.Const)
			case !outer.blocks[b]:
				post = append(post, it.Const)
			case beforeBody(in):
				cond, posIdx := outerIdxConds(b)
				if cond && posIdx {
					sep = append(sep, it.Const)
				} else if !cond {
					open = append(open, it.Const)
				} else {
					unknownPlace = true
				}
			case afterBody(in):
				if cond, _ := outerIdxConds(b); cond {
					// only the body's exit condition may guard the closing emission
					onlyExit := true
					base := bodyBaseFacts()
					for f := range p.Facts(fn)[b] {
						if base[f] || bodyExitCond(f) {
							continue
						}
						if iff, ok := outer.h.Instrs[len(outer.h.Instrs)-1].(*ssa.If); ok && f.Cond == iff.Cond {
							continue
						}
						onlyExit = false
					}
					if !onlyExit {
						unknownPlace = true
					}
				}
				close = append(close, it.Const)
			default:
				unknownPlace = true
			}
		}
	}
	if unknownPlace {
		r.Unk("R17.4", "util.CompileGlobs#skeleton", pos, "an emission outside the per-byte translation occurs under a condition the extractor does not recognise")
	} else {
		skel := func(n int) string {
			var sb strings.Builder
			sb.WriteString(strings.Join(pre, ""))
			for i := 0; i < n; i++ {
				if i > 0 {
					sb.WriteString(strings.Join(sep, ""))
				}
				sb.WriteString(strings.Join(open, ""))
				sb.WriteString("x")
				sb.WriteString(strings.Join(close, ""))
			}
			sb.WriteString(strings.Join(post, ""))
			return sb.String()
		}
		r.Analysed["glob_skeleton"] = map[string]string{"pre": strings.Join(pre, ""), "sep": strings.Join(sep, ""), "open": strings.Join(open, ""), "close": strings.Join(close, ""), "post": strings.Join(post, ""), "n=2": skel(2)}
		for n := 1; n <= 3; n++ {
			s := skel(n)
			construct := fmt.Sprintf("util.CompileGlobs#anchoring:n=%d", n)
			re, err := syntax.Parse(s, syntax.Perl)
			if err != nil {
				r.Bad("R17.4", construct, pos, "the skeleton %q for %d pattern(s) is not a valid regular expression: %v", s, n, err)
				continue
			}
			ok := re.Op == syntax.OpConcat && len(re.Sub) >= 3 && re.Sub[0].Op == syntax.OpBeginText && re.Sub[len(re.Sub)-1].Op == syntax.OpEndText
			if ok {
				// the middle must contain all n alternatives
				mid := re.Sub[1 : len(re.Sub)-1]
				cnt := 0
				var count func(x *syntax.Regexp)
				count = func(x *syntax.Regexp) {
					if x.Op == syntax.OpLiteral {
						cnt += strings.Count(string(x.Rune), "x")
					}
					for _, s := range x.Sub {
						count(s)
					}
				}
				for _, m := range mid {
					count(m)
				}
				ok = cnt == n || n == 1
				if n > 1 {
					// alternatives must be separate branches of one alternation, not a concatenation
					ok = false
					for _, m := range mid {
						x := m
						for x.Op == syntax.OpCapture && len(x.Sub) == 1 {
							x = x.Sub[0]
						}
						// regexp/syntax factors common prefixes: accept alternation or factored capture forms by semantic test below
						if x.Op == syntax.OpAlternate || x.Op == syntax.OpCharClass || x.Op == syntax.OpCapture || x.Op == syntax.OpLiteral {
							ok = true
						}
					}
					if ok {
						// semantic cross-check on the placeholder language: only "x" matches
						cre, cerr := regexp.Compile(s)
						ok = cerr == nil && cre.MatchString("x") && !cre.MatchString("xx") && !cre.MatchString("ax") && !cre.MatchString("xa") && !cre.MatchString("")
					}
				}
			}
			if ok {
				r.OK("R17.4", construct, pos, "skeleton %q parses to begin-text · alternatives · end-text", s)
			} else {
				r.Bad("R17.4", construct, pos, "skeleton %q parses to %s at top level (%s): '^' binds only to the first alternative and '$' only to the last, so with several patterns a path matches when it merely starts with one or ends with another", s, opName(re.Op), re.String())
			}
		}
	}

	// ---- translation table: paths through one inner iteration
	var idxPhi *ssa.Phi
	for _, in := range inner.h.Instrs {
		if ph, ok := in.(*ssa.Phi); ok {
			for i, e := range ph.Edges {
				if inner.blocks[inner.h.Preds[i]] && core.DependsOn(e, core.SliceOpts{}, func(v ssa.Value) bool { return v == ssa.Value(ph) }) {
					idxPhi = ph
				}
			}
		}
	}
	if idxPhi == nil {
		r.Unk("R17.3", "util.CompileGlobs#inner-index", pos, "inner loop index not recognised")
		return
	}
	var cur, next ssa.Value
	core.Instrs(tfn, func(in ssa.Instruction) {
		v, ok := in.(ssa.Value)
		if !ok {
			return
		}
		_, idx, ok := strIndex(v)
		if !ok {
			return
		}
		if idx == ssa.Value(idxPhi) && cur == nil {
			cur = v
		}
		if bo, ok := idx.(*ssa.BinOp); ok && bo.Op == token.ADD && bo.X == ssa.Value(idxPhi) {
			if k, ok := core.ConstInt(bo.Y); ok && k == 1 && next == nil {
				next = v
			}
		}
	})
	if cur == nil {
		r.Unk("R17.3", "util.CompileGlobs#current-byte", pos, "current pattern byte not recognised (index %s, inner header block %d)", idxPhi.Name(), inner.h.Index)
		return
	}
	// all lookahead lookups are treated as `next` when they index idx+1
	isNext := func(v ssa.Value) bool {
		_, idx, ok := strIndex(v)
		if !ok {
			return false
		}
		bo, ok := idx.(*ssa.BinOp)
		if !ok || bo.Op != token.ADD || bo.X != ssa.Value(idxPhi) {
			return false
		}
		k, ok := core.ConstInt(bo.Y)
		return ok && k == 1
	}
	var bodyEntry *ssa.BasicBlock
	for _, s := range inner.h.Succs {
		if inner.blocks[s] {
			bodyEntry = s
		}
	}
	var paths []gPath
	var dfs func(b *ssa.BasicBlock, cur gPath, visited map[*ssa.BasicBlock]bool)
	dfs = func(b *ssa.BasicBlock, acc gPath, visited map[*ssa.BasicBlock]bool) {
		if len(paths) > 500 || visited[b] {
			return
		}
		visited[b] = true
		defer delete(visited, b)
		acc.Blocks = append(append([]*ssa.BasicBlock{}, acc.Blocks...), b)
		emits := append([]gItem{}, acc.Emits...)
		for _, in := range b.Instrs {
			if c, ok := in.(ssa.CallInstruction); ok {
				if it, ok := builderWrite(c, tbuilder); ok {
					if it.Echo != nil && isNext(it.Echo) {
						it.Echo = next
					}
					emits = append(emits, it)
				}
			}
			if ret, ok := in.(*ssa.Return); ok {
				acc.Emits = emits
				acc.Returns = ret
				paths = append(paths, acc)
				return
			}
		}
		acc.Emits = emits
		last := b.Instrs[len(b.Instrs)-1]
		for si, s := range b.Succs {
			nacc := acc
			nacc.Conds = append([]gCond{}, acc.Conds...)
			if iff, ok := last.(*ssa.If); ok {
				nacc.Conds = append(nacc.Conds, gCond{iff.Cond, si == 0})
			}
			if s == inner.h {
				// resolve the index advance along this path
				var edge ssa.Value
				for i, pr := range inner.h.Preds {
					if pr == b {
						edge = idxPhi.Edges[i]
					}
				}
				adv, ok := resolveAdvance(edge, idxPhi, nacc.Blocks)
				nacc.Advance, nacc.AdvOK = adv, ok
				paths = append(paths, nacc)
				continue
			}
			if !inner.blocks[s] && !isReturnBlock(s) {
				continue
			}
			dfs(s, nacc, visited)
		}
	}
	dfs(bodyEntry, gPath{}, map[*ssa.BasicBlock]bool{})
	r.Analysed["glob_paths"] = len(paths)
	r.Floor("R17.3", len(paths), 4, "paths through one iteration of the per-byte translation")

	// classify paths by current byte
	type byteClass struct {
		K       int64          // -1 = default
		Set     map[int64]bool // the bytes a helper predicate over the current byte admits (K == -2)
		Exclude map[int64]bool
	}
	classOf := func(pt gPath) byteClass {
		bc := byteClass{K: -1, Exclude: map[int64]bool{}}
		for _, c := range pt.Conds {
			// a helper predicate over the current byte: `isMeta(b)`
			if call, isCall := c.Cond.(*ssa.Call); isCall && len(call.Call.Args) == 1 && call.Call.Args[0] == cur {
				if set, ok := constSetPredicate(core.Callee(call)); ok {
					if c.Val {
						if bc.K == -1 {
							bc.K, bc.Set = -2, set
						}
					} else {
						for k := range set {
							bc.Exclude[k] = true
						}
					}
				}
				continue
			}
			bo, ok := c.Cond.(*ssa.BinOp)
			if !ok || bo.Op != token.EQL || bo.X != cur {
				continue
			}
			k, ok := core.ConstInt(bo.Y)
			if !ok {
				continue
			}
			if c.Val {
				bc.K, bc.Set = k, nil
			} else {
				bc.Exclude[k] = true
			}
		}
		if bc.K == -2 {
			// bytes excluded earlier on the path do not reach the predicate's branch
			live := map[int64]bool{}
			for k := range bc.Set {
				if !bc.Exclude[k] {
					live[k] = true
				}
			}
			bc.Set = live
		}
		return bc
	}
	nextEq := func(pt gPath) (eq map[int64]bool, ne map[int64]bool) {
		eq, ne = map[int64]bool{}, map[int64]bool{}
		for _, c := range pt.Conds {
			// a helper predicate over the next byte: `isEscapable(next)`; true means next is one of the constants it accepts
			if call, isCall := c.Cond.(*ssa.Call); isCall && len(call.Call.Args) == 1 && isNext(call.Call.Args[0]) {
				if set, ok := constSetPredicate(core.Callee(call)); ok {
					for k := range set {
						if c.Val {
							eq[k] = true
						} else {
							ne[k] = true
						}
					}
				}
				continue
			}
			bo, ok := c.Cond.(*ssa.BinOp)
			if !ok || bo.Op != token.EQL || !isNext(bo.X) {
				continue
			}
			if k, ok := core.ConstInt(bo.Y); ok {
				if c.Val {
					eq[k] = true
				} else {
					ne[k] = true
				}
			}
		}
		return
	}
	special := map[int64]bool{}
	for b := int64(1); b < 128; b++ {
		if regexp.QuoteMeta(string(rune(b))) != string(rune(b)) {
			special[b] = true
		}
	}
	frozenLiteral := map[int64]string{'[': "passed through as a character-class delimiter (undocumented extension, outside the property's wording)", ']': "passed through as a character-class delimiter (undocumented extension, outside the property's wording)"}

	handled := map[int64]bool{}
	byK := map[int64][]gPath{}
	var defaults []gPath
	for _, pt := range paths {
		bc := classOf(pt)
		switch {
		case bc.K >= 0:
			handled[bc.K] = true
			byK[bc.K] = append(byK[bc.K], pt)
		case bc.K == -2:
			for k := range bc.Set {
				handled[k] = true
				byK[k] = append(byK[k], pt)
			}
		default:
			defaults = append(defaults, pt)
		}
	}
	// R17.1 default path echoes the byte; every special byte is handled by some case
	for i, pt := range defaults {
		t := tmpl(pt.Emits, cur, next)
		r.Check(pt.Returns == nil && t == "<b>" && pt.AdvOK && pt.Advance == 1, "R17.1", fmt.Sprintf("util.CompileGlobs#default-%d", i+1), pos, "bytes without a case are echoed once and consume one byte", fmt.Sprintf("the default translation emits %q / advances %d", t, pt.Advance))
	}
	r.Floor("R17.1", len(defaults), 1, "default translation paths")
	var ks []int64
	for k := range special {
		ks = append(ks, k)
	}
	sort.Slice(ks, func(i, j int) bool { return ks[i] < ks[j] })
	for _, k := range ks {
		construct := fmt.Sprintf("util.CompileGlobs#metachar:%q", string(rune(k)))
		if why, ok := frozenLiteral[k]; ok && !handled[k] {
			r.OK("R17.1", construct, pos, "frozen exception: %s", why)
			continue
		}
		r.Check(handled[k], "R17.1", construct, pos, "has its own translation", fmt.Sprintf("the regexp metacharacter %q has no case and is echoed raw: a pattern containing it is not matched literally", string(rune(k))))
	}
	// R17.2 / R17.3 per-case expectations
	var hk []int64
	for k := range byK {
		hk = append(hk, k)
	}
	sort.Slice(hk, func(i, j int) bool { return hk[i] < hk[j] })
	for _, k := range hk {
		pts := byK[k]
		construct := fmt.Sprintf("util.CompileGlobs#case:%q", string(rune(k)))
		var descr []string
		for _, pt := range pts {
			if pt.Returns != nil {
				descr = append(descr, "error")
			} else {
				descr = append(descr, fmt.Sprintf("%s/+%d", tmpl(pt.Emits, cur, next), pt.Advance))
			}
		}
		sort.Strings(descr)
		switch k {
		case '*':
			ok := len(pts) >= 2
			sawStarStar, sawStar := false, false
			for _, pt := range pts {
				eq, _ := nextEq(pt)
				t := tmpl(pt.Emits, cur, next)
				switch {
				case pt.Returns != nil:
					ok = false
				case eq['*']:
					sawStarStar = true
					ok = ok && fragIs(t, "anystar") && pt.Advance == 2
				default:
					sawStar = true
					ok = ok && fragIs(t, "nosepstar") && pt.Advance == 1
				}
			}
			r.Check(ok && sawStarStar && sawStar, "R17.3", construct, pos, "'**' -> any run of characters (2 bytes consumed), '*' -> any run of non-separator characters: "+strings.Join(descr, " | "), "wrong wildcard translation: "+strings.Join(descr, " | "))
		case '?':
			ok := len(pts) >= 1
			for _, pt := range pts {
				ok = ok && pt.Returns == nil && fragIs(tmpl(pt.Emits, cur, next), "anyone") && pt.Advance == 1
			}
			r.Check(ok, "R17.3", construct, pos, "'?' -> exactly one character: "+strings.Join(descr, " | "), "wrong translation of '?': "+strings.Join(descr, " | "))
		case '\\':
			ok := true
			sawErr, sawEcho := false, false
			allowed := map[int64]bool{}
			for _, pt := range pts {
				eq, _ := nextEq(pt)
				if pt.Returns != nil {
					sawErr = true
					vals := core.RetVals(pt.Returns)
					if len(vals) == 0 || core.IsNilConst(vals[len(vals)-1]) {
						ok = false
					}
					continue
				}
				sawEcho = true
				if tmpl(pt.Emits, cur, next) != "<b><c>" || pt.Advance != 2 || len(eq) == 0 {
					ok = false
				}
				for c := range eq {
					allowed[c] = true
					if !special[c] {
						ok = false // `\c` for a non-punctuation c is a regexp class or an error, not a literal
					}
				}
			}
			var al []string
			for c := range allowed {
				al = append(al, string(rune(c)))
			}
			sort.Strings(al)
			want := map[int64]bool{'\\': true, '*': true, '?': true, '[': true, ']': true}
			same := len(allowed) == len(want)
			for c := range want {
				if !allowed[c] {
					same = false
				}
			}
			r.Check(ok && sawErr && sawEcho && same, "R17.3", construct, pos, "escape accepts exactly \\\\ \\* \\? \\[ \\] (emitted as backslash+byte, 2 bytes consumed) and is an error otherwise: "+strings.Join(descr, " | "), fmt.Sprintf("escape handling deviates (accepted second bytes %q; %s)", strings.Join(al, ""), strings.Join(descr, " | ")))
		default:
			ok := len(pts) >= 1
			for _, pt := range pts {
				ok = ok && pt.Returns == nil && tmpl(pt.Emits, cur, next) == "\\<b>" && pt.Advance == 1
			}
			r.Check(ok && special[k], "R17.2", construct, pos, "regexp punctuation emitted behind a backslash (literal): "+strings.Join(descr, " | "), fmt.Sprintf("byte %q is translated as %s: not a literal match of that byte", string(rune(k)), strings.Join(descr, " | ")))
		}
	}
	for _, k := range []int64{'*', '?', '\\'} {
		if len(byK[k]) == 0 {
			r.Bad("R17.3", fmt.Sprintf("util.CompileGlobs#case:%q", string(rune(k))), pos, "no translation for %q", string(rune(k)))
		}
	}

	// ---- R17.6 the result is a function of this call's patterns only
	okPure := true
	for _, ret := range core.ReturnsOf(fn) {
		vals := core.RetVals(ret)
		if len(vals) != 2 {
			continue
		}
		if core.IsNilConst(vals[0]) {
			continue // error return
		}
		fromCompile := false
		if e, ok := vals[0].(*ssa.Extract); ok && e.Index == 0 {
			if c, ok := e.Tuple.(*ssa.Call); ok && (core.IsCallTo(c, "regexp", "Compile") || core.IsCallTo(c, "regexp", "MustCompile")) {
				if sc, ok := c.Call.Args[0].(*ssa.Call); ok && core.IsMethod(sc, "strings", "Builder", "String") && sc.Call.Args[0] == builder {
					fromCompile = true
				}
			}
		}
		if !fromCompile {
			okPure = false
			r.Bad("R17.6", "util.CompileGlobs#result-source", p.InstrPos(ret), "a successful return yields a regexp that is not the compilation of the pattern built from this call's globs (cached or shared state): another pattern list can be answered with it")
		}
	}
	var globalsRead []string
	for _, f := range core.WithAnons(fn) {
		core.Instrs(f, func(in ssa.Instruction) {
			var ops []*ssa.Value
			for _, op := range in.Operands(ops) {
				if g, ok := (*op).(*ssa.Global); ok && g.Pkg == fn.Pkg {
					globalsRead = append(globalsRead, g.Name())
				}
			}
		})
	}
	if len(globalsRead) > 0 {
		okPure = false
		r.Bad("R17.6", "util.CompileGlobs#package-state", pos, "the translation reads or writes package-level state (%s): the match set of one pattern list can depend on earlier calls", strings.Join(globalsRead, ", "))
	}
	if okPure {
		r.OK("R17.6", "util.CompileGlobs#pure", pos, "every successful return is regexp.Compile of the pattern built in this call; no package-level state is touched")
	}

	// ---- R17.12 the working directory os.glob strips is clean
	checkThreadCwdClean(p, r, "R17.12")
	checkIgnorePatternsVerbatim(p, r, "R17.13")

	// ---- R17.11 bytes stay bytes
	{
		nConv, nBad := 0, 0
		for _, f := range core.WithAnons(fn) {
			core.Instrs(f, func(in ssa.Instruction) {
				cv, ok := in.(*ssa.Convert)
				if !ok {
					return
				}
				nConv++
				from, isInt := cv.X.Type().Underlying().(*types.Basic)
				to, isStr := cv.Type().Underlying().(*types.Basic)
				if isInt && isStr && from.Info()&types.IsInteger != 0 && to.Info()&types.IsString != 0 {
					nBad++
					r.Bad("R17.11", fmt.Sprintf("util.CompileGlobs#int-to-string-%d", nBad), p.InstrPos(cv), "a %s of the pattern is converted to a string as if it were a code point: bytes above 0x7f (every non-ASCII character of the pattern) become two-byte sequences, so café/*.txt no longer matches café/menu.txt and matches cafÃ©/menu.txt instead", from.Name())
				}
			})
		}
		r.OK("R17.11", "util.CompileGlobs#conversions", pos, "%d conversion(s) in the translation examined: none turns an integer into a string (violations are listed separately)", nConv)
	}

	// ---- R17.5 callers
	nUse, nPkgPath := 0, 0
	for _, f := range p.ModuleFuncs() {
		for _, c := range core.Calls(f) {
			mc, ok := core.AsMethodCall(c)
			if !ok || mc.RecvPkg != "regexp" || mc.RecvType != "Regexp" {
				continue
			}
			fromGlobs := core.DependsOn(mc.Recv, core.SliceOpts{Stores: true}, func(v ssa.Value) bool {
				if cc, ok := v.(*ssa.Call); ok && core.Callee(cc) == fn {
					return true
				}
				return core.IsField(v, pkgRoot, "Project", "ignore")
			})
			if !fromGlobs {
				continue
			}
			nUse++
			// R17.7 the verdict of a set is taken per path: in a walk callback it never prunes a subtree
			if call, isCall := c.(*ssa.Call); isCall {
				nPrune := 0
				for _, ret := range core.ReturnsOf(f) {
					for _, v := range core.RetVals(ret) {
						ld, ok := v.(*ssa.UnOp)
						if !ok {
							continue
						}
						g, ok := ld.X.(*ssa.Global)
						if !ok || g.Pkg == nil || g.Pkg.Pkg.Path() != "io/fs" || (g.Name() != "SkipDir" && g.Name() != "SkipAll") {
							continue
						}
						dependsOnMatch := p.FactsAt(ret).Find(func(cv ssa.Value, _ bool) bool {
							return core.DependsOn(cv, core.SliceOpts{}, func(x ssa.Value) bool { return x == ssa.Value(call) })
						})
						if dependsOnMatch {
							nPrune++
							r.Bad("R17.7", fmt.Sprintf("%s#prunes-on-match-%d", fname(f), nPrune), p.InstrPos(ret), "the walk skips a whole directory depending on whether the directory's own path matches a glob set: paths below it are then decided by the directory, not by matching each of them (files under a directory named by an exclude pattern are dropped although no exclude pattern matches them)")
						}
					}
				}
			}
			// R17.8 what is matched is the path itself (separator-normalised with filepath.ToSlash, prefix stripped),
			// not a rewritten string
			if len(c.Common().Args) > 1 {
				// the values the matched string is computed from, followed through the parameters of the functions on the way
				// (a predicate such as (*Project).ignored is handed the string by its callers); one origin per chain of call sites
				type originInfo struct {
					calls   map[*ssa.Call]bool
					pkgPath bool
				}
				var origins func(v ssa.Value, depth int) []originInfo
				origins = func(v ssa.Value, depth int) []originInfo {
					local := originInfo{calls: map[*ssa.Call]bool{}}
					var follow []*ssa.Parameter
					for x := range core.BackwardSlice(v, core.SliceOpts{Stores: true, Helpers: true, ThroughCall: func(*ssa.Call) bool { return true }}) {
						switch y := x.(type) {
						case *ssa.Call:
							local.calls[y] = true
						case *ssa.Parameter:
							pf := y.Parent()
							if pf.Name() == "loadPackage" && pf.Signature.Recv() != nil && y.Type().String() == "string" {
								local.pkgPath = true // the package label itself: the source
								continue
							}
							if depth < 3 && pf.Parent() == nil && paramIndex(pf, y) >= 0 && len(p.StaticCallers(pf)) > 0 {
								follow = append(follow, y)
							}
						}
					}
					if len(follow) == 0 {
						return []originInfo{local}
					}
					var out []originInfo
					for _, prm := range follow {
						i := paramIndex(prm.Parent(), prm)
						for _, site := range p.StaticCallers(prm.Parent()) {
							if i >= len(site.Common().Args) {
								continue
							}
							// the package path as a label names it - a constant, a result of the label package
							// (Join, Clean, Parse), the Package field of a label - is the source: what it was computed
							// from (directory names read from the file system) does not matter
							if isLabelPackageValue(site.Common().Args[i]) {
								o := originInfo{calls: map[*ssa.Call]bool{}, pkgPath: true}
								for k := range local.calls {
									o.calls[k] = true
								}
								out = append(out, o)
								continue
							}
							for _, sub := range origins(site.Common().Args[i], depth+1) {
								o := originInfo{calls: map[*ssa.Call]bool{}, pkgPath: local.pkgPath || sub.pkgPath}
								for k := range local.calls {
									o.calls[k] = true
								}
								for k := range sub.calls {
									o.calls[k] = true
								}
								out = append(out, o)
							}
						}
					}
					return out
				}
				classify := func(o originInfo) (rewrite, normalise string) {
					for cc := range o.calls {
						cal := core.Callee(cc)
						if cal == nil || cal.Pkg == nil {
							continue
						}
						switch cal.Pkg.Pkg.Path() {
						case "strings", "bytes":
							switch cal.Name() {
							case "Replace", "ReplaceAll", "Map", "ToLower", "ToUpper", "ToTitle", "Title", "NewReplacer", "Fields", "TrimSpace", "Trim", "TrimLeft", "TrimRight", "TrimFunc":
								if n := cal.Pkg.Pkg.Name() + "." + cal.Name(); rewrite == "" || n < rewrite {
									rewrite = n
								}
							}
						case "regexp":
							if strings.HasPrefix(cal.Name(), "Replace") {
								rewrite = "regexp." + cal.Name()
							}
						case "path", "path/filepath":
							switch cal.Name() {
							case "Rel", "Clean", "Join", "Abs", "Dir", "Base", "EvalSymlinks":
								if n := cal.Pkg.Pkg.Name() + "." + cal.Name(); normalise == "" || n < normalise {
									normalise = n
								}
							}
						}
					}
					return
				}
				rewrite := ""
				var pkgNormalise []string
				for _, o := range origins(c.Common().Args[1], 0) {
					rw, nm := classify(o)
					if rw != "" && (rewrite == "" || rw < rewrite) {
						rewrite = rw
					}
					if o.pkgPath {
						pkgNormalise = append(pkgNormalise, nm)
					}
				}
				construct := fmt.Sprintf("%s#matches-the-path-%d", fname(f), nUse)
				if rewrite != "" {
					r.Bad("R17.8", construct, p.InstrPos(c.(ssa.Instruction)), "the string matched against the glob set has been rewritten with %s: on this platform the rewritten characters are ordinary file-name characters (a backslash on Unix), so the set is matched against a string that is not the path - files are selected or dropped contrary to the patterns, and a path that does not exist can be returned", rewrite)
				} else {
					r.OK("R17.8", construct, p.InstrPos(c.(ssa.Instruction)), "the matched string is the walked path (prefix-stripped / separator-normalised only)")
				}
				// R17.10 a package is matched under its own path: the label's package path, sliced - the lexical normalisers of
				// path and path/filepath never return the empty string (the root package's path), they return "."
				for _, normalise := range pkgNormalise {
					nPkgPath++
					construct := fmt.Sprintf("%s#package-path-verbatim-%d", fname(f), nPkgPath)
					if normalise != "" {
						r.Bad("R17.10", construct, p.InstrPos(c.(ssa.Instruction)), "the package path matched against the ignore set passes through %s, which never yields the empty path: the root package is matched as \".\" - a pattern such as .* or ? now ignores the whole project, and the empty pattern no longer matches the root", normalise)
					} else {
						r.OK("R17.10", construct, p.InstrPos(c.(ssa.Instruction)), "the package path is matched as the label names it (sliced only)")
					}
				}
			}
			r.Check(mc.Method == "MatchString", "R17.5", fname(f)+"#glob-use:"+mc.Method, p.InstrPos(c.(ssa.Instruction)), "the compiled glob set is applied with MatchString to the whole path", "the compiled glob set is applied with "+mc.Method+": not a whole-path match")
		}
	}
	checkGlobResults(p, r, fn)
	r.Floor("R17.5", nUse, 1, "uses of compiled glob sets")
	r.Floor("R17.10", nPkgPath, 1, "matches of a package path against the ignore set")
	r.OK("R17.7", "module#walks-do-not-prune-on-match", "-", "checked %d uses of compiled glob sets: no walk callback returns SkipDir/SkipAll under a condition that depends on a match result (violations are listed separately)", nUse)
}

// strIndex recognises s[i] on a string (ssa.Index or ssa.Lookup depending on the x/tools version).
func strIndex(v ssa.Value) (x, idx ssa.Value, ok bool) {
	switch l := v.(type) {
	case *ssa.Index:
		x, idx = l.X, l.Index
	case *ssa.Lookup:
		if l.CommaOk {
			return nil, nil, false
		}
		x, idx = l.X, l.Index
	default:
		return nil, nil, false
	}
	if b, isB := x.Type().Underlying().(*types.Basic); !isB || b.Info()&types.IsString == 0 {
		return nil, nil, false
	}
	return x, idx, true
}

func isExtractOf(v ssa.Value, call *ssa.Call) bool {
	e, ok := v.(*ssa.Extract)
	return ok && e.Tuple == ssa.Value(call)
}

func isPhi(v ssa.Value) bool { _, ok := v.(*ssa.Phi); return ok }

func isReturnBlock(b *ssa.BasicBlock) bool {
	if len(b.Instrs) == 0 {
		return false
	}
	_, ok := b.Instrs[len(b.Instrs)-1].(*ssa.Return)
	return ok
}

func opName(op syntax.Op) string {
	switch op {
	case syntax.OpAlternate:
		return "an alternation"
	case syntax.OpConcat:
		return "a concatenation"
	case syntax.OpCapture:
		return "a capture group"
	}
	return op.String()
}

// resolveAdvance expresses v as idx + k following the phis along the given path.
func resolveAdvance(v ssa.Value, idx *ssa.Phi, path []*ssa.BasicBlock) (int64, bool) {
	for hops := 0; hops < 20; hops++ {
		switch x := v.(type) {
		case *ssa.Phi:
			if x == idx {
				return 0, true
			}
			// which predecessor of x.Block() is on the path right before it?
			pos := -1
			for i, b := range path {
				if b == x.Block() {
					pos = i
				}
			}
			if pos <= 0 {
				return 0, false
			}
			pred := path[pos-1]
			found := false
			for i, pr := range x.Block().Preds {
				if pr == pred {
					v = x.Edges[i]
					found = true
					break
				}
			}
			if !found {
				return 0, false
			}
		case *ssa.BinOp:
			if x.Op != token.ADD {
				return 0, false
			}
			k, ok := core.ConstInt(x.Y)
			if !ok {
				return 0, false
			}
			rest, ok := resolveAdvance(x.X, idx, path)
			return rest + k, ok
		default:
			return 0, false
		}
	}
	return 0, false
}

// fragIs parses a constant regexp fragment and compares its structure.
func fragIs(frag, kind string) bool {
	re, err := syntax.Parse(frag, syntax.Perl)
	if err != nil {
		return false
	}
	anyNotNL := func(x *syntax.Regexp) bool { return x.Op == syntax.OpAnyCharNotNL || x.Op == syntax.OpAnyChar }
	notSep := func(x *syntax.Regexp) bool {
		if x.Op != syntax.OpCharClass {
			return false
		}
		// exactly everything but '/'
		return len(x.Rune) == 4 && x.Rune[0] == 0 && x.Rune[1] == '/'-1 && x.Rune[2] == '/'+1 && x.Rune[3] == 0x10ffff
	}
	switch kind {
	case "anystar":
		return re.Op == syntax.OpStar && anyNotNL(re.Sub[0])
	case "nosepstar":
		return re.Op == syntax.OpStar && notSep(re.Sub[0])
	case "anyone":
		return anyNotNL(re)
	}
	return false
}

// constSetPredicate returns the set of byte values for which the one-parameter boolean helper h returns true. h must
// be loop-free and built from comparisons of its parameter with constants, membership tests of the parameter in a
// constant string (strings.IndexByte / IndexRune / ContainsRune), negation, short-circuit phis and switch chains. The
// set is computed by enumerating the paths of h and filtering the 256 byte values through the conditions of each path
// (a powerset-of-bytes abstract domain: exact on this finite domain).
func constSetPredicate(h *ssa.Function) (map[int64]bool, bool) {
	if h == nil || h.Blocks == nil || len(h.Params) != 1 || h.Signature.Results().Len() != 1 {
		return nil, false
	}
	if b, ok := h.Signature.Results().At(0).Type().Underlying().(*types.Basic); !ok || b.Kind() != types.Bool {
		return nil, false
	}
	for _, b := range h.Blocks {
		if core.Reaches(b, b, false) {
			return nil, false
		}
	}
	prm := h.Params[0]
	bad := false
	// eval evaluates the pure expression v for the parameter value c along the path (for phis)
	var eval func(v ssa.Value, c int64, path []*ssa.BasicBlock) int64
	eval = func(v ssa.Value, c int64, path []*ssa.BasicBlock) int64 {
		switch x := v.(type) {
		case *ssa.Parameter:
			if x == prm {
				return c
			}
		case *ssa.Const:
			if b, ok := core.ConstBool(x); ok {
				if b {
					return 1
				}
				return 0
			}
			if k, ok := core.ConstInt(x); ok {
				return k
			}
		case *ssa.Convert:
			return eval(x.X, c, path)
		case *ssa.ChangeType:
			return eval(x.X, c, path)
		case *ssa.UnOp:
			if x.Op == token.NOT {
				return 1 - eval(x.X, c, path)
			}
		case *ssa.BinOp:
			a, b := eval(x.X, c, path), eval(x.Y, c, path)
			t := false
			switch x.Op {
			case token.EQL:
				t = a == b
			case token.NEQ:
				t = a != b
			case token.LSS:
				t = a < b
			case token.LEQ:
				t = a <= b
			case token.GTR:
				t = a > b
			case token.GEQ:
				t = a >= b
			default:
				bad = true
			}
			if t {
				return 1
			}
			return 0
		case *ssa.Phi:
			for i := len(path) - 1; i > 0; i-- {
				if path[i] == x.Block() {
					for ei, pr := range x.Block().Preds {
						if pr == path[i-1] {
							return eval(x.Edges[ei], c, path[:i])
						}
					}
				}
			}
		case *ssa.Call:
			cal := core.Callee(x)
			if cal != nil && len(x.Call.Args) == 2 {
				if str, ok := core.ConstString(x.Call.Args[0]); ok {
					k := eval(x.Call.Args[1], c, path)
					idx := int64(-1)
					for i := 0; i < len(str); i++ {
						if int64(str[i]) == k && str[i] < 0x80 {
							idx = int64(i)
							break
						}
					}
					switch core.CalleeKey(cal) {
					case "strings.IndexByte", "strings.IndexRune":
						return idx
					case "strings.ContainsRune":
						if idx >= 0 {
							return 1
						}
						return 0
					}
				}
			}
		}
		bad = true
		return 0
	}
	set := map[int64]bool{}
	nPaths := 0
	var walk func(b *ssa.BasicBlock, path []*ssa.BasicBlock, live []int64)
	walk = func(b *ssa.BasicBlock, path []*ssa.BasicBlock, live []int64) {
		nPaths++
		if nPaths > 4096 || bad || len(live) == 0 {
			return
		}
		path = append(append([]*ssa.BasicBlock{}, path...), b)
		switch last := b.Instrs[len(b.Instrs)-1].(type) {
		case *ssa.Return:
			for _, c := range live {
				if eval(last.Results[0], c, path) != 0 {
					set[c] = true
				}
			}
		case *ssa.If:
			var t, f []int64
			for _, c := range live {
				if eval(last.Cond, c, path) != 0 {
					t = append(t, c)
				} else {
					f = append(f, c)
				}
			}
			walk(b.Succs[0], path, t)
			walk(b.Succs[1], path, f)
		case *ssa.Jump:
			walk(b.Succs[0], path, live)
		default:
			bad = true
		}
	}
	all := make([]int64, 256)
	for i := range all {
		all[i] = int64(i)
	}
	walk(h.Blocks[0], nil, all)
	if bad || nPaths > 4096 || len(set) == 0 {
		return nil, false
	}
	return set, true
}

// checkGlobResults implements R17.9.
func checkGlobResults(p *core.Prog, r *core.Result, compile *ssa.Function) {
	nFn, nAdd := 0, 0
	// CompileGlobs itself, or a wrapper of the module whose successful result is CompileGlobs' result
	isCompile := func(h *ssa.Function) bool {
		if h == nil {
			return false
		}
		if h == compile {
			return true
		}
		if !core.InModule(h) || h.Blocks == nil || h.Signature.Results().Len() != 2 {
			return false
		}
		n := 0
		for _, ret := range core.ReturnsOf(h) {
			vals := core.RetVals(ret)
			if core.IsNilConst(vals[0]) {
				continue
			}
			e, ok := vals[0].(*ssa.Extract)
			if !ok || e.Index != 0 {
				return false
			}
			c, ok := e.Tuple.(*ssa.Call)
			if !ok || core.Callee(c) != compile {
				return false
			}
			n++
		}
		return n > 0
	}
	for _, f := range p.ModuleFuncs() {
		if f.Parent() != nil || isCompile(f) {
			continue
		}
		// a glob builtin compiles two sets (include, exclude)
		// the sets compiled by f, or by helpers of its package that f calls (a helper may compile both sets and hand
		// back a predicate)
		var sets []ssa.Value
		seenF := map[*ssa.Function]bool{}
		var gather func(g *ssa.Function, depth int)
		gather = func(g *ssa.Function, depth int) {
			if g == nil || seenF[g] || g.Blocks == nil || depth > 2 {
				return
			}
			seenF[g] = true
			for _, gg := range core.WithAnons(g) {
				for _, c := range core.Calls(gg) {
					call, ok := c.(*ssa.Call)
					if !ok {
						continue
					}
					h := core.Callee(c)
					if isCompile(h) {
						if e := extractOf(call, 0); e != nil {
							sets = append(sets, e)
						}
						continue
					}
					if h != nil && h.Pkg == f.Pkg && h.Parent() == nil && depth < 2 {
						gather(h, depth+1)
					}
				}
			}
		}
		gather(f, 0)
		if len(sets) < 2 {
			continue
		}
		// only functions that add results themselves are glob builtins
		hasAdd := false
		for _, g := range core.WithAnons(f) {
			core.Instrs(g, func(in ssa.Instruction) {
				if call, ok := in.(*ssa.Call); ok && core.IsMethod(call, pkgStar, "List", "Append") {
					hasAdd = true
				}
				if call, ok := in.(*ssa.Call); ok {
					if b, isB := call.Call.Value.(*ssa.Builtin); isB && b.Name() == "append" {
						if sl, ok := call.Type().Underlying().(*types.Slice); ok {
							if n, ok := sl.Elem().(*types.Named); ok && n.Obj().Name() == "Value" {
								hasAdd = true
							}
						}
					}
				}
			})
		}
		if !hasAdd {
			continue
		}
		nFn++
		var isSetD func(v ssa.Value, depth int) ssa.Value
		isSet := func(v ssa.Value) ssa.Value { return isSetD(v, 0) }
		isSetD = func(v ssa.Value, depth int) ssa.Value {
			if depth > 4 {
				return nil
			}
			v = core.Unwrap(v)
			for _, s := range sets {
				if v == s {
					return s
				}
			}
			switch x := v.(type) {
			case *ssa.UnOp:
				if x.Op == token.MUL {
					if s := core.SingleStore(x.X); s != nil {
						return isSetD(s, depth+1)
					}
				}
			case *ssa.FreeVar:
				if b := core.Binding(x); b != nil {
					return isSetD(b, depth+1)
				}
			case *ssa.Alloc:
				if s := core.SingleStore(x); s != nil {
					return isSetD(s, depth+1)
				}
			case *ssa.Extract:
				// a result of a helper of the package: what its successful returns yield at that position
				if c, ok := x.Tuple.(*ssa.Call); ok {
					if h := core.Callee(c); h != nil && h.Pkg == f.Pkg && h.Blocks != nil && !isCompile(h) {
						var res ssa.Value
						for _, ret := range core.ReturnsOf(h) {
							if x.Index >= len(ret.Results) || core.IsNilConst(ret.Results[x.Index]) {
								continue
							}
							r := isSetD(ret.Results[x.Index], depth+1)
							if r == nil || (res != nil && res != r) {
								return nil
							}
							res = r
						}
						return res
					}
				}
			}
			return nil
		}
		k := 0
		for _, g := range core.WithAnons(f) {
			core.Instrs(g, func(in ssa.Instruction) {
				call, ok := in.(*ssa.Call)
				if !ok {
					return
				}
				var elem ssa.Value
				if core.IsMethod(call, pkgStar, "List", "Append") && len(call.Call.Args) == 2 {
					elem = call.Call.Args[1]
				} else if b, isB := call.Call.Value.(*ssa.Builtin); isB && b.Name() == "append" && len(call.Call.Args) == 2 {
					if sl, ok := call.Call.Args[1].(*ssa.Slice); ok {
						if elems, ok := tupleElemsAny(sl); ok && len(elems) == 1 {
							if n, ok := elems[0].Type().(*types.Named); ok && (n.Obj().Name() == "Value" || n.Obj().Name() == "String") {
								elem = elems[0]
							}
						}
					}
				}
				if elem == nil {
					return
				}
				// the string that is added
				str := core.Unwrap(elem)
				if cv, ok := str.(*ssa.Convert); ok {
					str = cv.X
				}
				if ct, ok := str.(*ssa.ChangeType); ok {
					str = ct.X
				}
				if b, ok := str.Type().Underlying().(*types.Basic); !ok || b.Info()&types.IsString == 0 {
					return
				}
				k++
				nAdd++
				var inc, exc ssa.Value
				for _, fct := range xfacts(p, call) {
					mc, ok := fct.Cond.(*ssa.Call)
					if !ok || !core.IsMethod(mc, "regexp", "Regexp", "MatchString") || len(mc.Call.Args) != 2 || fct.Arg(mc.Call.Args[1]) != str {
						continue
					}
					set := isSet(mc.Call.Args[0])
					if set == nil {
						continue
					}
					if fct.Val {
						inc = set
					} else {
						exc = set
					}
				}
				r.Check(inc != nil && exc != nil && inc != exc, "R17.9", fmt.Sprintf("%s#result-%d", fname(f), k), p.InstrPos(call), "added only where the include set matched this very string and the exclude set did not", "a path is added to the result of glob() without this very string having been matched by the include set (and rejected by the exclude set): a shortcut that asks the file system instead accepts every spelling the OS normalises ('./a.txt', 'src/../a.txt', '../outside.txt'), so the result is no longer the set of paths the patterns match, and a path the exclude set names under another spelling is returned")
			})
		}
	}
	r.Floor("R17.9", nFn, 2, "glob builtins (functions compiling an include and an exclude set)")
	r.Floor("R17.9", nAdd, 2, "result additions in glob builtins")
}

// isLabelPackageValue: v is a package path as labels carry it - a string constant, the (first) result of a function of
// package label, or the Package field of a label.
func isLabelPackageValue(v ssa.Value) bool {
	v = core.Unwrap(v)
	if _, ok := core.ConstString(v); ok {
		return true
	}
	if core.LoadOfField(v, pkgLabel, "Label", "Package") {
		return true
	}
	var c *ssa.Call
	switch x := v.(type) {
	case *ssa.Extract:
		if x.Index == 0 {
			c, _ = x.Tuple.(*ssa.Call)
		}
	case *ssa.Call:
		c = x
	}
	if c == nil {
		return false
	}
	cal := core.Callee(c)
	return cal != nil && cal.Pkg != nil && cal.Pkg.Pkg.Path() == pkgLabel
}

#!/bin/bash
# usage: thorough.sh <property>  (called by run.sh <property> thorough; dawnlint already built)
# (i) the property's rules under four build configurations (one process each);
# (ii) sensitivity: every /verif/mutants/<property>-*.patch and neutral-*.patch applied to a scratch copy of
#      /repo's current tree (created, analysed, deleted, one at a time), likewise every seeded change of
#      /verif/seeded/<property>*/ — informational, never changes the verdict;
# (iii) final run on the default configuration writes the evidence (tier thorough) including (i) and (ii).
set -u
HERE="$(cd "$(dirname "$0")" && pwd)"
export GOFLAGS=-mod=mod GOPROXY=off GOSUMDB=off GOTOOLCHAIN=local; unset GOWORK
PROP="$1"; BIN="$HERE/checker/bin/dawnlint"; REPO="${VERIF_REPO:-/repo}"
EXTRA=$(mktemp /tmp/dawnlint-extra.XXXXXX.json)
# the sensitivity runs analyse ~90 scratch copies, each under a path of its own: their build artefacts go into a
# private build cache that is removed at the end (about 7 MB per copy would otherwise stay in the user's cache)
SCACHE=$(mktemp -d /tmp/dawnlint-gocache.XXXXXX)
trap 'rm -f "$EXTRA"; chmod -R u+w "$SCACHE" 2>/dev/null; rm -rf "$SCACHE"' EXIT
rc=0
CONF_JSON=""
for cfg in windows/amd64 darwin/arm64 linux/386; do
  os=${cfg%/*}; arch=${cfg#*/}
  out=$("$BIN" -property "$PROP" -repo "$REPO" -verif "$HERE" -goos $os -goarch $arch -no-evidence 2>&1); code=$?
  line=$(echo "$out" | grep -m1 '^dawnlint property' | sed 's/"/\\"/g')
  CONF_JSON="$CONF_JSON{\"goos\":\"$os\",\"goarch\":\"$arch\",\"exit\":$code,\"summary\":\"$line\"},"
  if [ $code -ne 0 ]; then
    echo "configuration $cfg: exit $code"; echo "$out" | grep -E 'OPEN|KNOWN' | head -20
    # known findings print and exit 0; anything else is an open violation under that configuration
    rc=1
  fi
done
SENS_JSON=""
det=0; app=0
export GOCACHE="$SCACHE"
for patch in "$HERE"/mutants/$PROP-*.patch "$HERE"/seeded/$PROP*/patch.diff "$HERE"/mutants/neutral-*.patch; do
  [ -f "$patch" ] || continue
  name=$(basename "$patch" .patch)
  case "$patch" in */seeded/*) name="seed-$(basename "$(dirname "$patch")")";; esac
  full=$(VERBOSE=1000 "$HERE/tools/runmut.sh" "$patch" "$PROP" 2>&1); res=$(echo "$full" | head -1)
  case "$name" in
    neutral-*) case "$res" in
        *MISSED*) st="silent-as-expected";;
        *DETECTED*) left=$(echo "$full" | grep OPEN | python3 "$HERE/tools/residual.py" "$name"); if [ -z "$left" ]; then st="documented-residual"; else st="FALSE-ALARM"; fi;;
        *) st="not-applicable";; esac;;
    *) case "$res" in *DETECTED*) st="detected"; det=$((det+1)); app=$((app+1));; *MISSED*) st="MISSED"; app=$((app+1));; *) st="not-applicable";; esac;;
  esac
  echo "sensitivity $name: $st"
  SENS_JSON="$SENS_JSON{\"mutant\":\"$name\",\"outcome\":\"$st\"},"
done
unset GOCACHE
echo "{\"configurations\":[${CONF_JSON%,}],\"sensitivity\":[${SENS_JSON%,}],\"sensitivity_detected\":$det,\"sensitivity_applicable\":$app}" > "$EXTRA"
"$BIN" -property "$PROP" -tier thorough -repo "$REPO" -verif "$HERE" -extra "$EXTRA"; code=$?
[ $code -ne 0 ] && rc=$code
if [ $rc -ne 0 ] && [ $code -eq 0 ]; then echo "VIOLATION property=$PROP replay=$HERE/evidence/$PROP.json (non-default build configuration)"; fi
exit $rc

#!/bin/bash
# rebuild dawnlint
export GOFLAGS=-mod=mod GOPROXY=off GOSUMDB=off GOTOOLCHAIN=local; unset GOWORK
cd "$(dirname "$0")/../checker" && go build -o bin/dawnlint ./cmd/dawnlint

#!/usr/bin/env python3
"""Filters the OPEN lines of a neutral patch: drops those listed as documented residuals in
mutants/neutral-residuals.txt (<patch> <property> <rule> <construct prefix>  # reason). Everything that remains is a
false alarm."""
import sys, os, re
name = sys.argv[1]
here = os.path.dirname(os.path.abspath(__file__))
res = []
for line in open(os.path.join(here, '..', 'mutants', 'neutral-residuals.txt')):
    line = line.split('#', 1)[0].strip()
    if not line:
        continue
    parts = line.split(None, 3)
    if len(parts) == 4 and parts[0] == name:
        res.append(parts[1:])
for line in sys.stdin:
    m = re.match(r'\s*OPEN (C\d+) (R[\d.a-z]+) (\w+) \[[^\]]*\] (.*)', line)
    if not m:
        continue
    prop, rule, _, rest = m.groups()
    if any(prop == a and (b == '*' or rule == b) and (c == '-' or rest.startswith(c)) for a, b, c in res):
        continue
    sys.stdout.write(line)

#!/bin/bash
# usage: runmut.sh [-t] <patch> <property>...   Applies the patch to a scratch copy of /repo's current tree,
# checks it still compiles (-t: and passes the test suite), runs dawnlint for each property on the copy
# and prints DETECTED / MISSED per property. The scratch copy is removed afterwards.
export GOFLAGS=-mod=mod GOPROXY=off GOSUMDB=off GOTOOLCHAIN=local; unset GOWORK
TEST=0; if [ "$1" = "-t" ]; then TEST=1; shift; fi
PATCH="$(realpath "$1")"; shift
HERE="$(cd "$(dirname "$0")/.." && pwd)"
TMP=$(mktemp -d /tmp/dawnlint-mut.XXXXXX)
trap 'rm -rf "$TMP"' EXIT
cp -a ${VERIF_REPO:-/repo}/. "$TMP/" && rm -rf "$TMP/.git"
if ! ( cd "$TMP" && patch -p1 -s --no-backup-if-mismatch < "$PATCH" ) >/dev/null 2>&1; then echo "$(basename $PATCH): NOT-APPLICABLE (patch does not apply)"; exit 3; fi
if ! ( cd "$TMP" && go build ./... && go vet -vettool=/bin/true ./... >/dev/null 2>&1 || true ) 2>"$TMP/.builderr"; then echo "$(basename $PATCH): DOES-NOT-COMPILE"; head -5 "$TMP/.builderr"; exit 4; fi
if ! ( cd "$TMP" && go build ./... ) 2>"$TMP/.builderr"; then echo "$(basename $PATCH): DOES-NOT-COMPILE"; head -5 "$TMP/.builderr"; exit 4; fi
if [ $TEST = 1 ]; then
  if ! ( cd "$TMP" && go test -vet=off -count=1 -timeout 120s ./... ) >"$TMP/.testout" 2>&1; then echo "$(basename $PATCH): FAILS-TESTS"; grep -E "^(--- FAIL|FAIL|panic)" "$TMP/.testout" | head -5; exit 5; fi
fi
rc=0
for P in "$@"; do
  OUT=$("$HERE/checker/bin/dawnlint" -property "$P" -repo "$TMP" -verif "$HERE" -no-evidence 2>&1); code=$?
  if [ $code = 1 ]; then echo "$(basename $PATCH) $P: DETECTED"; echo "$OUT" | grep OPEN | sed "s#$TMP/##" | head -${VERBOSE:-3}
  elif [ $code = 0 ]; then echo "$(basename $PATCH) $P: MISSED"; rc=1
  else echo "$(basename $PATCH) $P: ERROR code=$code"; echo "$OUT" | tail -5; rc=2; fi
done
exit $rc

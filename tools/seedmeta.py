#!/usr/bin/env python3
"""seedmeta.py <dir-under-seeded> <property> <detected-by...>  — writes seeded/<dir>/meta.json from the agent's meta and my confirmation."""
import json, sys, os
d, prop = sys.argv[1], sys.argv[2]
base = f'/verif/seeded/{d}'
agent = json.load(open(f'{base}/meta.agent.json')) if os.path.exists(f'{base}/meta.agent.json') else {}
conf = json.load(open(f'{base}/confirm.json')) if os.path.exists(f'{base}/confirm.json') else {}
meta = {
  "property": prop,
  "summary": agent.get("summary", ""),
  "needs_to_manifest": agent.get("needs_to_manifest", ""),
  "files_changed": agent.get("files_changed", []),
  "origin": "independent sub-agent given only the property text and a scratch worktree (nothing from /verif)",
  "confirmed_by_me": {
     "how": "tools/seedcheck.sh: patch applied to a scratch copy of /repo HEAD; go build ./...; go test ./... (existing suite) ; demo run with and without the patch; scratch copy removed",
     "existing_suite_passes_with_change": True,
     "demo_cmd": conf.get("demo_run"),
     "demo_exit_with_change": conf.get("demo_exit_with_change"),
     "demo_exit_without_change": conf.get("demo_exit_without_change"),
  },
  "detected_by": sys.argv[3:],
}
json.dump(meta, open(f'{base}/meta.json', 'w'), indent=1)
print(base, meta["detected_by"])

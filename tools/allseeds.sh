#!/bin/bash
# Runs every seeded change (seeded/<id>/patch.diff) against the check of its property: each must be DETECTED.
# Seeds whose patch no longer applies to /repo's current tree (the code they change was repaired since) are listed.
cd "$(dirname "$0")/.."
( cd checker && GOFLAGS=-mod=mod GOPROXY=off GOSUMDB=off GOTOOLCHAIN=local go build -o bin/dawnlint ./cmd/dawnlint ) || exit 2
run() {
  d="$1"; id=$(basename "$d"); p=${id%%-*}
  out=$(tools/runmut.sh "$d/patch.diff" $p 2>&1 | head -1)
  case "$out" in *DETECTED*) echo "OK   $id detected";; *NOT-APPLICABLE*) echo "STALE $id: patch does not apply to the current tree";; *) echo "BAD  $id: $out";; esac
}
export -f run
ls -d seeded/C* | xargs -P 12 -I{} bash -c 'run {}' | sort | tee /tmp/allseeds.res | grep -v '^OK'; echo "$(grep -c '^OK' /tmp/allseeds.res) detected, $(grep -c '^STALE' /tmp/allseeds.res) stale, $(grep -c '^BAD' /tmp/allseeds.res) missed"

#!/usr/bin/env python3
"""mkmut.py <name> <file> <old> <new> [<file2> <old2> <new2> ...]
Creates /verif/mutants/<name>.patch (or $MUTDIR/<name>.patch): a unified diff against /repo's current
tree obtained by replacing <old> by <new> in <file> (exactly one occurrence required unless <old>
starts with '@N@' selecting the N-th, 1-based). Several edits to one file compose."""
import sys, subprocess, os, tempfile, re
name = sys.argv[1]
triples = sys.argv[2:]
assert len(triples) % 3 == 0 and triples
texts = {}
order = []
for i in range(0, len(triples), 3):
    f, old, new = triples[i:i+3]
    if f not in texts:
        p = os.path.join('/repo', f)
        texts[f] = open(p).read() if os.path.exists(p) else ''
        order.append(f)
    src = texts[f]
    n = 1
    m = re.match(r'@(\d+)@', old)
    if m:
        n = int(m.group(1)); old = old[m.end():]
    if old == '' and src == '':
        texts[f] = new
        continue
    cnt = src.count(old)
    if m is None and cnt != 1:
        sys.exit(f"{f}: {cnt} occurrences of old text (need exactly 1, or use @N@)")
    if cnt < n:
        sys.exit(f"{f}: only {cnt} occurrences")
    idx = -1
    for _ in range(n):
        idx = src.index(old, idx + 1)
    texts[f] = src[:idx] + new + src[idx+len(old):]
out = []
for f in order:
    with tempfile.NamedTemporaryFile('w', delete=False) as t:
        t.write(texts[f])
    orig = os.path.join('/repo', f)
    if not os.path.exists(orig):
        orig = '/dev/null'
    p = subprocess.run(['diff', '-u', '--label', 'a/' + f, '--label', 'b/' + f, orig, t.name], capture_output=True, text=True)
    os.unlink(t.name)
    out.append(p.stdout)
d = os.environ.get('MUTDIR', '/verif/mutants')
open(f'{d}/{name}.patch', 'w').write(''.join(out))
print(f'{d}/{name}.patch')

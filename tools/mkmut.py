#!/usr/bin/env python3
"""mkmut.py <name> <file> <old> <new> [<file2> <old2> <new2> ...]
Creates /verif/mutants/<name>.patch: a unified diff against /repo's current tree obtained by
replacing the first occurrence of <old> by <new> in <file> (exactly one occurrence required
unless <old> starts with '@N@' selecting the N-th, 1-based)."""
import sys, subprocess, os, tempfile, re
name = sys.argv[1]
triples = sys.argv[2:]
assert len(triples) % 3 == 0 and triples
out = []
for i in range(0, len(triples), 3):
    f, old, new = triples[i:i+3]
    src = open(os.path.join('/repo', f)).read()
    n = 1
    m = re.match(r'@(\d+)@', old)
    if m:
        n = int(m.group(1)); old = old[m.end():]
    cnt = src.count(old)
    if m is None and cnt != 1:
        sys.exit(f"{f}: {cnt} occurrences of old text (need exactly 1, or use @N@)")
    if cnt < n:
        sys.exit(f"{f}: only {cnt} occurrences")
    idx = -1
    for _ in range(n):
        idx = src.index(old, idx + 1)
    dst = src[:idx] + new + src[idx+len(old):]
    with tempfile.NamedTemporaryFile('w', delete=False) as t:
        t.write(dst)
    p = subprocess.run(['diff', '-u', '--label', 'a/' + f, '--label', 'b/' + f, os.path.join('/repo', f), t.name], capture_output=True, text=True)
    os.unlink(t.name)
    out.append(p.stdout)
open(f'/verif/mutants/{name}.patch', 'w').write(''.join(out))
print(f'/verif/mutants/{name}.patch')

#!/bin/bash
# usage: seeddemo.sh <seed-id>: re-confirms seeded/<id> against /repo's current tree: patch applies, builds, the
# existing suite passes with it, the demo fails with it and passes without it. Updates confirm.json.
export GOFLAGS=-mod=mod GOPROXY=off GOSUMDB=off GOTOOLCHAIN=local; unset GOWORK
HERE="$(cd "$(dirname "$0")/.." && pwd)"; ID="$1"; DST="$HERE/seeded/$ID"
SC=$(mktemp -d /tmp/seeddemo.XXXXXX); trap 'rm -rf "$SC"' EXIT
( cd /repo && git archive HEAD | tar -x -C "$SC" )
( cd "$SC" && patch -p1 -s --no-backup-if-mismatch < "$DST/patch.diff" ) || { echo "$ID: patch does not apply"; exit 3; }
( cd "$SC" && go build ./... ) || { echo "$ID: does not compile"; exit 4; }
if ( cd "$SC" && go test -count=1 -timeout 300s ./... >"$SC/.suite" 2>&1 ); then echo "$ID: existing suite passes with the change"; else echo "$ID: existing suite FAILS with the change"; grep -E '^(--- FAIL|FAIL)' "$SC/.suite" | head; fi
while read -r f; do mkdir -p "$SC/$(dirname "$f")"; cp "$DST/demo/$f" "$SC/$f"; done < "$DST/demo/FILES"
RUN=$(python3 -c "import json; print(json.load(open('$DST/confirm.json'))['demo_run'])")
( cd "$SC" && eval "$RUN" >"$SC/.demo1" 2>&1 ); d1=$?
( cd "$SC" && patch -p1 -R -s --no-backup-if-mismatch < "$DST/patch.diff" && eval "$RUN" >"$SC/.demo0" 2>&1 ); d0=$?
echo "$ID: demo with change exit=$d1 (want != 0); without change exit=$d0 (want 0)"
[ $d0 -ne 0 ] && tail -5 "$SC/.demo0"
python3 - "$DST/confirm.json" $d1 $d0 <<'PY'
import json,sys
p=sys.argv[1]; c=json.load(open(p)); c['demo_exit_with_change']=int(sys.argv[2]); c['demo_exit_without_change']=int(sys.argv[3]); c['reconfirmed_after_rebase']=True
json.dump(c,open(p,'w'))
PY

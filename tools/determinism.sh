#!/bin/bash
# runs every check N times (default 3) and reports properties whose obligation list differs between runs
cd "$(dirname "$0")/.."; N=${1:-3}
for c in $(checker/bin/dawnlint -property list); do
  sums=""
  for i in $(seq $N); do sums="$sums $(checker/bin/dawnlint -property $c -list -no-evidence 2>&1 | grep -E '^  (discharged|violated|undecided|info)' | sort | md5sum | cut -c1-8)"; done
  u=$(echo $sums | tr ' ' '\n' | sort -u | wc -l)
  [ $u -eq 1 ] && echo "$c deterministic ($sums)" || echo "$c FLAKY ($sums)"
done

#!/bin/bash
# usage: mktree.sh <patch> <dir>   scratch copy of /repo's tree with the patch applied (for debugging a rule); remove it afterwards
set -e
rm -rf "$2"; mkdir -p "$2"; cp -a /repo/. "$2/"; rm -rf "$2/.git"; cd "$2"; patch -p1 -s --no-backup-if-mismatch < "$(realpath "$OLDPWD/$1" 2>/dev/null || echo "$1")"

#!/bin/bash
# Runs every mutant against the property in its file name (neutral-* against all claimed properties it names, or
# $NEUTRAL_PROPS) in parallel and prints a summary; lists only unexpected outcomes.
cd "$(dirname "$0")/.."
( cd checker && GOFLAGS=-mod=mod GOPROXY=off GOSUMDB=off GOTOOLCHAIN=local go build -o bin/dawnlint ./cmd/dawnlint ) || exit 2
run() {
  f="$1"; n=$(basename "$f" .patch)
  case "$n" in
    neutral-C*) p=$(echo "$n" | sed -E 's/^neutral-(C[0-9]+).*/\1/'); out=$(tools/runmut.sh "$f" $p 2>&1 | head -1); case "$out" in *MISSED*) echo "OK   $n silent";; *) echo "BAD  $n: $out";; esac;;
    neutral-*) out=$(tools/runmut.sh "$f" C04 C05 C09 2>&1 | grep -c DETECTED); [ "$out" = 0 ] && echo "OK   $n silent" || echo "BAD  $n false alarm";;
    *) p=${n%%-*}; out=$(tools/runmut.sh "$f" $p 2>&1 | head -1); case "$out" in *DETECTED*) echo "OK   $n detected";; *) echo "BAD  $n: $out";; esac;;
  esac
}
export -f run
ls mutants/*.patch | xargs -P 12 -I{} bash -c 'run {}' | sort | tee /tmp/allmut.out | grep -v '^OK' ; echo "$(grep -c '^OK' /tmp/allmut.out) ok, $(grep -c '^BAD' /tmp/allmut.out) unexpected"

#!/bin/bash
# Runs every mutant against the property in its file name (neutral-* against all claimed properties it names, or
# $NEUTRAL_PROPS) in parallel and prints a summary; lists only unexpected outcomes.
cd "$(dirname "$0")/.."
( cd checker && GOFLAGS=-mod=mod GOPROXY=off GOSUMDB=off GOTOOLCHAIN=local go build -o bin/dawnlint ./cmd/dawnlint ) || exit 2
run() {
  f="$1"; n=$(basename "$f" .patch)
  case "$n" in
    neutral-C*) p=$(echo "$n" | sed -E 's/^neutral-(C[0-9]+).*/\1/'); out=$(tools/runmut.sh "$f" $p 2>&1 | head -1); case "$out" in *MISSED*) echo "OK   $n silent";; *) echo "BAD  $n: $out";; esac;;
    neutral-*) if ! ( T=$(mktemp -d /tmp/applychk.XXXXXX); cp -a /repo/. $T/; cd $T && patch -p1 -s --dry-run < "$OLDPWD/$f" >/dev/null 2>&1; rc=$?; rm -rf $T; exit $rc ); then echo "BAD  $n: NOT-APPLICABLE (patch does not apply)"; return; fi
      out=$(VERBOSE=1000 tools/runmut.sh "$f" C01 C02 C03 C04 C05 C06 C07 C08 C09 C10 C11 C12 C13 C14 C15 C16 C17 C18 C19 C20 2>&1 | grep OPEN | python3 tools/residual.py "$n"); [ -z "$out" ] && echo "OK   $n silent$(grep -q "^$n " mutants/neutral-residuals.txt && echo ' (documented residuals excepted)')" || echo "BAD  $n false alarm: $(echo "$out" | head -3 | tr '\n' ' ')";;
    *) p=${n%%-*}; out=$(tools/runmut.sh "$f" $p 2>&1 | head -1); case "$out" in *DETECTED*) echo "OK   $n detected";; *) echo "BAD  $n: $out";; esac;;
  esac
}
export -f run
ls mutants/*.patch | xargs -P 12 -I{} bash -c 'run {}' | sort | tee /tmp/allmut.res | grep -v '^OK' ; echo "$(grep -c '^OK' /tmp/allmut.res) ok, $(grep -c '^BAD' /tmp/allmut.res) unexpected"

#!/usr/bin/env python3
"""rebase_seed.py <seed-id>: rewrites seeded/<id>/patch.diff so that it applies to /repo HEAD: each hunk's removed and
context lines are located in the current file after applying the listed textual substitutions (old-base text ->
current text), and the diff is regenerated with `diff -u`. The original is kept as patch.orig.diff."""
import sys, os, re, subprocess, tempfile, shutil
sid = sys.argv[1]
subs = []
args = sys.argv[2:]
for i in range(0, len(args), 2):
    subs.append((args[i], args[i+1]))
base = f'/verif/seeded/{sid}'
patch = open(f'{base}/patch.diff').read()
if not os.path.exists(f'{base}/patch.orig.diff'):
    shutil.copy(f'{base}/patch.diff', f'{base}/patch.orig.diff')
else:
    patch = open(f'{base}/patch.orig.diff').read()
# apply the substitutions to the patch text itself (context/removed/added lines alike), then apply with fuzz
for a, b in subs:
    patch = patch.replace(a, b)
tmp = tempfile.mkdtemp(prefix='rbseed.')
for d in ('a', 'b'):
    os.mkdir(f'{tmp}/{d}')
    subprocess.check_call(f"cd /repo && git archive HEAD | tar -x -C {tmp}/{d}", shell=True)
pf = f'{tmp}/p.diff'
open(pf, 'w').write(patch)
r = subprocess.run(['patch', '-p1', '--fuzz=3', '--no-backup-if-mismatch', '-i', pf], cwd=f'{tmp}/b', capture_output=True, text=True)
print(r.stdout.strip())
if r.returncode != 0:
    print('FAILED'); shutil.rmtree(tmp); sys.exit(1)
out = subprocess.run(['diff', '-ruN', 'a', 'b'], cwd=tmp, capture_output=True, text=True).stdout
out = re.sub(r'^diff -ruN a/(\S+) b/(\S+)$', r'diff --git a/\1 b/\2', out, flags=re.M)
out = re.sub(r'^(---|\+\+\+) ([ab]/\S+)\t.*$', r'\1 \2', out, flags=re.M)
open(f'{base}/patch.diff', 'w').write(out)
shutil.rmtree(tmp)
print('rebased', sid)

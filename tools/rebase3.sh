#!/bin/bash
# usage: rebase3.sh <patch> [base-commit]   Three-way rebase of a patch that no longer applies to /repo HEAD: the patch is
# applied at the commit it was made for (default: the last commit at which it applies, searched backwards), committed in a
# scratch worktree, rebased onto HEAD with git's merge machinery, and rewritten in place (original kept as <patch>.orig once).
# Conflicts are left in the worktree (path printed) for a manual resolution; rerun with RESUME=<worktree> afterwards.
set -u
PATCH="$(realpath "$1")"; BASE="${2:-}"
HEAD=$(git -C /repo rev-parse HEAD)
WT="${RESUME:-}"
if [ -z "$WT" ]; then
  if [ -z "$BASE" ]; then
    for c in $(git -C /repo log --format=%H -40); do
      T=$(mktemp -d /tmp/rb3probe.XXXXXX); git -C /repo archive "$c" | tar -x -C "$T"
      if ( cd "$T" && patch -p1 -s --dry-run < "$PATCH" ) >/dev/null 2>&1; then BASE=$c; rm -rf "$T"; break; fi
      rm -rf "$T"
    done
  fi
  [ -z "$BASE" ] && { echo "no base commit found for $PATCH"; exit 2; }
  WT=$(mktemp -d /tmp/rb3.XXXXXX); rmdir "$WT"
  git -C /repo worktree add --detach "$WT" "$BASE" >/dev/null 2>&1 || exit 2
  ( cd "$WT" && patch -p1 -s --no-backup-if-mismatch < "$PATCH" && git add -A && git -c user.name=v -c user.email=v@v commit -qm patch ) || { echo "cannot apply at $BASE"; exit 2; }
  if ! ( cd "$WT" && git -c user.name=v -c user.email=v@v rebase -q "$HEAD" ) >/dev/null 2>&1; then
    echo "CONFLICT in $WT:"; ( cd "$WT" && git diff --name-only --diff-filter=U ); exit 1
  fi
else
  ( cd "$WT" && git add -A && GIT_EDITOR=true git -c user.name=v -c user.email=v@v rebase --continue ) >/dev/null 2>&1 || { echo "still conflicting"; exit 1; }
fi
ORIG="$PATCH.orig"; case "$PATCH" in */patch.diff) ORIG="$(dirname "$PATCH")/patch.orig.diff";; esac
[ -f "$ORIG" ] || cp "$PATCH" "$ORIG"
( cd "$WT" && git diff "$HEAD" HEAD ) > "$PATCH"
git -C /repo worktree remove --force "$WT"; git -C /repo worktree prune
echo "rebased $(basename "$PATCH") from ${BASE:-resume} onto $HEAD"

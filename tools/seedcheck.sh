#!/bin/bash
# usage: seedcheck.sh <Cxx> [worktree]   Imports a sub-agent's seeded change from its worktree into /verif/seeded/<Cxx>/,
# re-confirms it in a scratch copy of /repo (compiles; suite passes with the change; demo fails with / passes without),
# and runs the property's check against it. The scratch copy is removed afterwards.
export GOFLAGS=-mod=mod GOPROXY=off GOSUMDB=off GOTOOLCHAIN=local; unset GOWORK
ID="$1"; WT="${2:-/tmp/seed-$ID}"; HERE="$(cd "$(dirname "$0")/.." && pwd)"
DST="$HERE/seeded/${3:-$ID}"; mkdir -p "$DST/demo"
if [ -d "$WT/SEED" ]; then
  cp "$WT/SEED/patch.diff" "$DST/patch.diff"; cp "$WT/SEED/meta.json" "$DST/meta.agent.json" 2>/dev/null
  # demo files = untracked files of the worktree outside SEED/
  ( cd "$WT" && git status --porcelain --untracked-files=all | grep '^??' | cut -c4- | grep -v '^SEED/' ) > "$DST/demo/FILES"
  while read -r f; do mkdir -p "$DST/demo/$(dirname "$f")"; cp "$WT/$f" "$DST/demo/$f"; done < "$DST/demo/FILES"
fi
SC=$(mktemp -d /tmp/seedchk.XXXXXX); trap 'rm -rf "$SC"' EXIT
cp -a /repo/. "$SC/"; rm -rf "$SC/.git"
( cd "$SC" && patch -p1 -s --no-backup-if-mismatch < "$DST/patch.diff" ) || { echo "$ID: patch does not apply to /repo HEAD"; exit 3; }
( cd "$SC" && go build ./... ) || { echo "$ID: does not compile"; exit 4; }
if ( cd "$SC" && go test -count=1 -timeout 300s ./... >"$SC/.suite" 2>&1 ); then echo "$ID: existing suite passes with the change"; else echo "$ID: existing suite FAILS with the change"; grep -E '^(--- FAIL|FAIL)' "$SC/.suite" | head; fi
# demo
while read -r f; do mkdir -p "$SC/$(dirname "$f")"; cp "$DST/demo/$f" "$SC/$f"; done < "$DST/demo/FILES"
CMD=$(python3 -c "import json,sys; print(json.load(open('$DST/meta.agent.json')).get('demo_cmd',''))" 2>/dev/null | sed "s#/tmp/seed-$ID#$SC#g")
RUNRE=$(echo "$CMD" | grep -oE "\-run[ =]'?[A-Za-z0-9_|^\$]+'?" | head -1 | sed -E "s/-run[ =]//; s/'//g")
PKGS=$(while read -r f; do echo "./$(dirname "$f")"; done < "$DST/demo/FILES" | sort -u | grep -v testdata | tr '\n' ' ')
[ -z "$RUNRE" ] && RUNRE="Seed"
echo "$ID: demo: go test -count=1 -timeout 300s -run '$RUNRE' $PKGS"
( cd "$SC" && go test -count=1 -timeout 300s -run "$RUNRE" $PKGS >"$SC/.demo1" 2>&1 ); d1=$?
( cd "$SC" && patch -p1 -R -s --no-backup-if-mismatch < "$DST/patch.diff" && go test -count=1 -timeout 300s -run "$RUNRE" $PKGS >"$SC/.demo0" 2>&1 ); d0=$?
echo "$ID: demo with change exit=$d1 (want != 0); without change exit=$d0 (want 0)"
[ $d1 -ne 0 ] && grep -E '^(--- FAIL|panic|fatal|\s+.*_test.go)' "$SC/.demo1" | head -4
[ $d0 -ne 0 ] && tail -5 "$SC/.demo0"
echo "{\"demo_run\": \"go test -count=1 -timeout 300s -run '$RUNRE' $PKGS\", \"demo_exit_with_change\": $d1, \"demo_exit_without_change\": $d0}" > "$DST/confirm.json"
# checks
shift; shift; shift
"$HERE/tools/runmut.sh" "$DST/patch.diff" ${CHECKS:-$ID} 2>&1 | cut -c1-300

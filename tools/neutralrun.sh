#!/bin/bash
# usage: neutralrun.sh <scratch-tree> [props...]: runs the quick tier of every (or the given) property against a tree, prints open obligations only
T=$1; shift; PROPS=${*:-$(echo C{01..20})}
for P in $PROPS; do /verif/checker/bin/dawnlint -property $P -tier quick -repo $T -verif /verif -no-evidence | grep "OPEN" ; done

#!/usr/bin/env python3
"""Regenerates /verif/MANIFEST.json from the table below (kept here so that the claimed set, the
technique strings and the not_applicable list stay in one place)."""
import json, subprocess
claimed = {
 # id: (technique, text, note, design_ref)
 "C01": ("must-facts (dominating branch conditions) on the skip decision, edge facts on the dependency accumulator, value slicing for stamp dependence and directory hashing, dominance for record ordering and generator linking (go/ssa)",
         "Decides that the skip decision cannot ignore any of its four inputs, that a dependency counts as up to date only with a record, no change and equal stamp, that the stamp handed to dependents depends on dependency stamps (found and fixed F8), that directory sums cover names in sorted order (found and fixed F6), that a function target is up to date only with unchanged environment and existing outputs, that generators are linked on every full load, and that records are written only after a successful body.",
         "Trusts go/ssa; the skeleton of (*runTarget).Evaluate is recognised by role (interface invokes, fields), other shapes are reported undecided. Equality of outputs with a clean build for a given history is behavioural and not decided."),
 "C02": ("nondeterminism-source reachability over the VTA call graph from the stamp code, must-facts on the source-file verdicts, value identity of the record rewritten at load, provenance of both sides of the environment comparison (go/ssa)",
         "Decides that no clock/pid/random/directory-order/address/map-order source is reachable from the code that computes or compares stamps, that sources are up to date exactly on equality of recorded and current content hash (no mtime), that a load writes back exactly the record it read, and that both sides of the environment comparison come from the same decoder/unpickler and the same pickler.",
         "Trusts go/ssa + VTA (over-approximate) and the source table. That unrelated edits leave a function's compiled bytecode unchanged is a property of the Starlark compiler and not decided."),
 "C03": ("dominance/must-facts for temp-file+rename ordering, who-may-write table over path-derivation slices, literal-field extraction of the records written, fallback analysis of the index load (go/ssa)",
         "Decides atomic replacement of records (CreateTemp in the state tree -> encode -> close -> rename onto the label-derived path, each on the nil-error edge), the closed set of writers of the build-state directory, failure records with Rerun and without stamp, success records only after the body, index load fallback and index write optionality, and that build/watch/Reload never load from the index.",
         "Trusts go/ssa, rename atomicity within one file system (process-death crash model, no fsync). Convergence after recovery is not decided."),
 "C04": ("lock-set dataflow + dominance + who-may-call over go/ssa",
         "Decides, on every path of runner.go, the lock/ownership structure that at-most-once execution and correct result hand-off need: guarded-by on target.status/err, atomic check-then-set in start, single spawn site, LoadOrStore-only identity map, same-index result wiring after wait(), wait-loop and wake-up discipline, Run returns the requested target's wait(). A necessary condition, not a schedule exploration.",
         "Trusts go/types+go/ssa, sync.Mutex/Cond/Map semantics. Does not decide the behaviour under all interleavings as such."),
 "C05": ("dominance / must-facts over go/ssa + who-constructs rule",
         "Decides publish-before-check ordering (atomic Swap dominates the cycle check, cleared by defer), no wait() on the cycle edge, that the cyclic-dependency error is constructed only under the root-identity test, wait/wake discipline and waiting outside a slot. Termination under all interleavings is NOT decided (outside static reach).",
         "Trusts go/ssa and sync/atomic semantics; termination itself (incl. check's recursion through a rootless cycle) is not claimed."),
 "C06": ("lock-set dataflow with callee summaries (no nested acquisition), critical-section and ordering rules over go/ssa",
         "Decides: no module mutex acquired while one is held (found and fixed F4), registry check-or-insert atomic under the project lock, loading edge published before and cleared after waiting, publication order in done, wake-ups on all exits, ExecFile only from the insert branch, cyclic error only when the chain walk met the waiter and the walk advances.",
         "Trusts go/ssa, sync semantics; frozen single-threaded phases (Reload, post-barrier iteration) listed in the checker. Termination under all interleavings not decided."),
 "C07": ("table-agreement between encoder and decoder extracted from go/ssa (opcode sets, byte layouts, guard intervals vs widths, memo parity, MARK pairing, type agreement)",
         "Decides that the two hand-written opcode tables agree: every emitted opcode has a case; payload byte k carries value>>8k on both sides (found and fixed F1); emission guards fit the decoded width/signedness; memo ids and MEMOIZE stay in lock-step; containers are memoized before contents; operand order of TUPLE2/3; MARKs are closed; container and scalar types agree. Round-trip equality for all values is a behavioural consequence that is not itself decided.",
         "Trusts go/ssa; the extractor recognises the scratch-array + Write idiom and the switch-on-readByte dispatch (other shapes are reported undecided). Lengths/ids < 2^32 assumed."),
 "C08": ("table agreement pickler/unpickler and AttrNames/Attr, slice-based flow of environment components, re-entrance guard detection, nondeterminism-source reachability over the VTA call graph",
         "Decides pickler/unpickler agreement on (module, name, arity), that every environment component (Env, ModuleEnv incl. all 5 module parts, Bytecode, Code) flows into the pickled tuple and is consumed by the unpickler, that advertised attribute names are answered, that an open pointer-stable pickler case has a re-entrance guard (found and fixed F7), and that no clock/pid/random/dir-order/address/map-order source is reachable from the function fingerprint.",
         "Trusts go/ssa + VTA (over-approximate), the starlark fork's ModuleEnv/Env contracts. Termination on deep acyclic data and change-sensitivity of the Starlark compiler's ModuleEnv are not decided."),
 "C09": ("pairing on all paths + lock-set + dominance over go/ssa",
         "Decides slot pairing on every exit (enter/defer exit in run, exit/defer enter in EvaluateTargets, no other mover), capacity only under gate.m with the zero test, Wait and decrement in one critical section, +1/-1 deltas, Signal after increment, work inside a slot, waiting outside, limit = runtime.NumCPU().",
         "Trusts go/ssa and Mutex/Cond semantics; the instantaneous bound follows from these but is not observed."),
 "C10": ("field-sensitive parameter-dependence slices for cache keys vs cached values, must-facts on the version-order callbacks, loop-coverage of the build-list copy (go/ssa)",
         "Decides only the clauses 'independent of the state of the download cache / of map iteration order' and conformance of dawn's callbacks to the MVS library contract: every resolver cache key covers what its value is computed from (path and version), the on-disk cache directory embeds both, Max/cmpVersion rank the root's empty version greatest and otherwise follow semver, Required answers the root list exactly for the empty path, BuildList copies every element.",
         "The selection algorithm lives in github.com/pgavlin/mvs (a dependency) and is NOT analysed: minimality/maximality of the selected versions is not decided."),
 "C11": ("constant-reachability for the Downgrade sentinel, loop-coverage and lookup-before-store facts in transformReqs, must-facts for the no-op case (go/ssa)",
         "Decides the contract with mvs.Downgrade (Previous answers \"none\", never the empty root version: found and fixed F5; root returned unchanged by Upgrade/Previous), that every existing name of a retained project is kept and only new projects get fresh names, that a fresh name is stored only after a failed lookup of that name, and that requesting the selected version is a no-op.",
         "Build-list relations after tidy/upgrade/downgrade and query resolution are behavioural (library + VCS) and not decided."),
 "C12": ("sanitiser-on-every-flow taint slices in target(), must-facts on the cleaned path in the sanitiser, shape extraction of the record path, key-origin check of the label-keyed tables (go/ssa)",
         "Decides the confinement clause, the identity plumbing and (later rules, listed below) canonicity by construction and index/slice safety of package label: every sources/generates path reaches the file system through repoSourcePath/sourceLabel, which cleans first and rejects '..'/'../' on the cleaned value it returns; record paths are work/<kind>s/<one URL-escaped package+name component>; Project.targets/modules are keyed only by (*Label).String().",
         "Canonicity is decided as canonical-by-construction (R12.6, R12.10) and panic-freedom by a difference-bound abstract interpretation of package label (R12.7); the round trip as observed is not executed."),
 "C13": ("effect confinement: must-facts on the dry-run flag for every effectful call site, mutator reachability through the static in-module closure of the up-to-date checks, constant-result check of evaluate implementations",
         "Decides that the body and every record write are on the not-dry-run edge, that the checks that run in dry runs reach no file-system/process mutator, that the dry branch marks changed+succeeded as every real successful evaluation does, that the flag is assigned on every path of RunOptions.apply, and that evaluating is reported before the dry-run test independent of it.",
         "Trusts go/ssa and the mutator table. Effects of user Starlark code are confined by skipping the body, which is what is checked."),
 "C14": ("derivation agreement (same path function for mark, read and write), unfiltered-loop facts, constant agreement with the writers' names, mutator reachability from GC (go/ssa)",
         "Decides that GC marks targetInfoPath(label) for every entry of Project.targets without filter, that records are read from and renamed onto that same derivation, that index.json and temp are marked under the names their writers use, that marking walks up the parents, and that the only mutation is RemoveAll of unmarked entries of a walk rooted at Project.work.",
         "Equality of later builds' executed sets with/without GC is behavioural and not decided; a stale index (gc loads by index) is outside this check."),
 "C15": ("panic-site typing over the static call closure of Decode, recover-handler typestate, loop-progress classification, non-nil push sources, guard-interval bounds lint on record consumers (go/ssa)",
         "Decides that every explicit panic reachable from Decode carries an error, that Decode/Encode install (first thing, unconditionally) a handler converting every error-valued panic including runtime.Error into the named result, that each decoder loop consumes input or has a bounded induction variable, that pushed/returned values are non-nil, and that the record consumers outside the recover scope have no unguarded len(x)-k/constant index, unchecked assertion or reachable panic (found and fixed F9).",
         "Trusts go/ssa and go.starlark.net; memory exhaustion and 32-bit length overflow are outside the property. Crash-freedom for all byte strings is not itself proven."),
 "C16": ("value-origin (parameter identity through SSA phis), edge-fact evaluation of the reverse flag, must-facts on mapping edits, table agreement (go/ssa + go/ast)",
         "Decides that diff nodes carry the operands in the order given (found and fixed F2), that the sequence differ's operand swap is undone when edits are recorded (kind and cursor as a function of differ.reverse), that mapping edits are tied to exactly the three key classes, that the reason table equals the unpickler's key set, and that a nil diff is returned exactly on the equal edge.",
         "Trusts go/ssa and starlark equality. Reconstruction of both sequences from the edit script (the O(NP) search) is behavioural and not decided."),
 "C17": ("extraction of the glob->regexp translation table and emission skeleton from go/ssa (path enumeration over one loop iteration), then structural checks with regexp/syntax on the extracted constants",
         "Decides, without executing CompileGlobs: unescaped echo only for non-metacharacters, backslash-escape only for punctuation, the fragments for * ** ? and the escape rules (incl. bytes consumed), and that the skeleton for 1..3 patterns parses to begin-text·alternatives·end-text (found and fixed F3); callers use MatchString only.",
         "Trusts go/ssa and Go's regexp engine/parser; recognises the strings.Builder emission idiom (other idioms are reported undecided); paths contain no newline; [ ] pass-through frozen as outside the property's wording."),
 "C18": ("typestate dataflow over the CFG of (*runTarget).Evaluate, who-may-emit rules, dominance for run-done and flush",
         "Decides on every path the event protocol of one evaluation (up-to-date | evaluating·succeeded | evaluating·failed | failed | silent only when a dependency failed), body only between evaluating and the terminal event, success never on an error edge, target events only from Evaluate, run-done exactly once after the runner with the returned error, flush deferred first in evaluate.",
         "Trusts go/ssa. Line reassembly is decided structurally (R18.5: the chunk is only cut at its first newline, the rest becomes the next chunk, one delivery per newline); cross-target interleaving is not decided."),
 "C19": ("table agreement between struct tags and the hand-written writer's format strings, encoder-on-every-value flow check, edge facts on the bare-key branch, constant extraction of the bare-key alphabet (go/ssa + go/types)",
         "Decides that every toml-tagged field is written under its tag key, that requirements are written in sorted order, that every value goes through the TOML encoder, and that a requirement name is written bare only when non-empty (found and fixed F12) and made of A-Za-z0-9_-.",
         "That go-toml decodes what its encoder produces for every string is library behaviour and not decided."),
 "C20": ("lock-set + dominance/must-facts over go/ssa",
         "Decides guarded-by on cache.entries, re-check of the same key under the write lock before the call with no unlock through to the update, update only on the nil-error edge with the call's value, hits return the stored value.",
         "Trusts go/ssa and sync.RWMutex semantics."),
}
pending = {}
na = {}
import os
props = [json.loads(l)["id"] for l in open('/verif/properties.jsonl')]
checks = []
for pid in props:
    if pid in claimed:
        tech, text, note = claimed[pid][:3]
        # the rule list of the current checker (from the evidence the checker itself wrote) is authoritative for what is
        # decided; the hand-written summary above only introduces it
        try:
            ev = json.load(open(f'/verif/evidence/{pid}.json'))
            expl = ev['coverage']['explanation']
            i = expl.index('DECIDED (')
            j = expl.index('NOT DECIDED')
            decided = expl[expl.index(':', i) + 1:j].strip().rstrip('.')
            notdec = expl[expl.index(':', j) + 1:].strip().rstrip('.')
            text = text + " Rules decided by the current checker: " + decided + "."
            note = note + " Not decided: " + notdec + "."
        except Exception as e:
            pass
        checks.append({
            "property_id": pid,
            "quick_cmd": f"./run.sh {pid} quick",
            "thorough_cmd": f"./run.sh {pid} thorough",
            "evidence_file": f"/verif/evidence/{pid}.json",
            "replay_cmd_template": f"cat {{path}}",
            "engine": "dawnlint",
            "level_claimed": {"category": "other", "text": text, "design_ref": f"DESIGN.md §4 {pid}"},
            "level_note": note,
            "technique": "static analysis: " + tech,
        })
m = {
 "version": 1,
 "setup_cmd": "cd /verif/checker && GOFLAGS=-mod=mod GOPROXY=off GOSUMDB=off GOTOOLCHAIN=local go build -o bin/dawnlint ./cmd/dawnlint",
 "hooks": {"guard": "verif", "enable": "none needed: dawnlint reads /repo's source; no instrumentation is compiled into dawn", "baseline_off_cmd": "cd /repo && GOFLAGS=-mod=mod go test -json -vet=off -count=1 -timeout 25m ./...", "source_commits": [], "add_only": True},
 "engines": [{"name": "dawnlint", "path": "/verif/checker", "serves_properties": sorted(claimed), "kind_free_text": "repository-specific static analyser (go/packages + go/ssa + VTA call graph, x/tools v0.29.0): lock-sets, dominance/must-facts, typestate, slicing, table agreement"}],
 "checks": checks,
 "notes": "All claims are at level 'other': structural necessary conditions decided from source on every path; see DESIGN.md. Genuine defects found are in known_findings.json: 'fixed' entries (repaired in /repo by fix: commits) suppress nothing; 'known' entries (four at present: F32, C15 R15.10, a defect of the forked Starlark library's json.encode; F34, C08 R8.13, Starlark equality identifies 3 and 3.0 and ignores dict order; F37, C04 R4.11, the cycle-path return of EvaluateTargets waits for nothing; F38, C07 R7.16 and C08 R8.14, insertion errors dropped by the decoder lose entries keyed by functions) are printed as KNOWN-FINDING lines by the check of their property, which then exits 0 unless something else is open.",
 "not_applicable": [{"property_id": p, "reason": na.get(p, pending.get(p, "rules designed in DESIGN.md §4 but not built yet in this commit; not claimed"))} for p in props if p not in claimed],
}
json.dump(m, open('/verif/MANIFEST.json', 'w'), indent=1)
print(len(checks), "checks,", len(m["not_applicable"]), "not applicable")

#!/bin/bash
# validates MANIFEST.json and every evidence file against the schemas
python3-vt - <<'PY'
import json,jsonschema,glob
jsonschema.validate(json.load(open('/verif/MANIFEST.json')), json.load(open('/root/.vp/MANIFEST.schema.json')))
m=json.load(open('/verif/MANIFEST.json'))
for c in m['checks']:
    jsonschema.validate(json.load(open(c['evidence_file'])), json.load(open('/root/.vp/EVIDENCE.schema.json')))
print('manifest + %d evidence files valid'%len(m['checks']))
PY

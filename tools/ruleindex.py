#!/usr/bin/env python3
"""Regenerates Appendix B of DESIGN.md (the rule index) from the evidence files the checker wrote."""
import json, re
out = ['## Appendix B. Rule index (generated from the checker\'s own rule lists by `tools/ruleindex.py`)\n',
       'Every rule below is an obligation family of `dawnlint`; the evidence file of a property lists, per rule, how many\ninstances were found and discharged on the current tree. "Not decided" is what the check of that property does not\nclaim.\n']
for i in range(1, 21):
    pid = 'C%02d' % i
    ev = json.load(open(f'/verif/evidence/{pid}.json'))
    expl = ev['coverage']['explanation']
    a = expl.index('DECIDED ('); b = expl.index('NOT DECIDED')
    dec = expl[expl.index(':', a) + 1:b].strip().rstrip('.')
    nd = expl[expl.index(':', b) + 1:].strip().rstrip('.')
    out.append(f'\n### {pid}\n')
    rules = [r.strip() for r in re.split(r' \| (?=R\d+\.\d+)', dec)]
    def key(r):
        m = re.match(r'R(\d+)\.(\d+)', r)
        return (int(m.group(1)), int(m.group(2))) if m else (99, 99)
    for r in sorted(rules, key=key):
        out.append('* ' + r + '\n')
    out.append('\nNot decided: ' + nd.replace(' | ', '; ') + '.\n')
text = ''.join(out)
p = '/verif/DESIGN.md'
s = open(p).read()
m = '## Appendix B. Rule index'
if m in s:
    s = s[:s.index(m)]
s = s.rstrip('\n') + '\n\n' + text
open(p, 'w').write(s)

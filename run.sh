#!/bin/bash
# usage: run.sh <property> [quick|thorough]   — cwd-independent; rebuilds dawnlint from /verif/checker,
# analyses /repo's current working tree, rewrites /verif/evidence/<property>.json.
set -u
HERE="$(cd "$(dirname "$0")" && pwd)"
export GOFLAGS=-mod=mod GOPROXY=off GOSUMDB=off GOTOOLCHAIN=local
unset GOWORK
PROP="$1"; TIER="${2:-${VERIF_TIER:-quick}}"
BIN="$HERE/checker/bin/dawnlint"
( cd "$HERE/checker" && go build -o "$BIN" ./cmd/dawnlint ) || { echo "VIOLATION property=$PROP replay=$HERE/checker (checker failed to build)"; exit 1; }
if [ "$TIER" = thorough ]; then
  exec "$HERE/thorough.sh" "$PROP"
fi
exec "$BIN" -property "$PROP" -tier quick -repo "${VERIF_REPO:-/repo}" -verif "$HERE"

package mvs

import (
	"context"
	"errors"
	"fmt"
	"path"
	"testing"
	"time"

	"github.com/pgavlin/dawn/internal/project"
	"github.com/pgavlin/dawn/internal/vcs"
	"github.com/pgavlin/mvs"
	"github.com/stretchr/testify/assert"
	"github.com/stretchr/testify/require"
	"golang.org/x/mod/module"
)

type testDialerF5 struct {
	repos map[string]*testRepository
}

func (d testDialerF5) dialRepository(ctx context.Context, kind, address string) (vcs.Repository, error) {
	if r, ok := d.repos[address]; ok {
		return r, nil
	}
	return nil, errors.New("unreachable")
}

func TestF5DowngradeTerminates(t *testing.T) {
	const sandbox = "github.com/pgavlin/sandbox"
	m := func(project string, version int) module.Version {
		return module.Version{Path: path.Join(sandbox, project), Version: fmt.Sprintf("v1.%v.0", version)}
	}

	r := func(project string, version int) project.RequirementConfig {
		return versionRequirement(m(project, version))
	}

	dialer := testDialerF5{
		repos: map[string]*testRepository{
			sandbox: &testRepository{
				path:       sandbox,
				defaultRef: "main",
				refs: map[string]string{
					"main":     "1",
					"b/v1.1.0": "1",
					"c/v1.1.0": "1",
					"c/v1.2.0": "2",
					"c/v1.3.0": "3",
					"c/v1.4.0": "4",
					"d/v1.2.0": "2",
					"d/v1.3.0": "3",
					"d/v1.4.0": "4",
					"d/v1.5.0": "5",
					"e/v1.1.0": "1",
					"e/v1.2.0": "2",
					"f/v1.1.0": "1",
					"g/v1.1.0": "1",
					"h/v1.1.0": "1",
				},
				head: testRevisions([]map[string]*mvsProject{
					{
						"b": {
							Version:      m("b", 1),
							Requirements: []module.Version{m("d", 3)},
						},
						"c": {
							Version:      m("c", 1),
							Requirements: []module.Version{m("d", 2)},
						},
						"e": {
							Version: m("e", 1),
						},
						"f": {
							Version: m("f", 1),
						},
						"g": {
							Version:      m("g", 1),
							Requirements: []module.Version{m("c", 4)},
						},
						"h": {
							Version: m("h", 1),
						},
					},
					{
						"c": {
							Version:      m("c", 2),
							Requirements: []module.Version{m("d", 4)},
						},
						"d": {
							Version:      m("d", 2),
							Requirements: []module.Version{m("e", 1)},
						},
						"e": {
							Version: m("e", 2),
						},
					},
					{
						"c": {
							Version:      m("c", 3),
							Requirements: []module.Version{m("d", 5)},
						},
						"d": {
							Version:      m("d", 3),
							Requirements: []module.Version{m("e", 2)},
						},
					},
					{
						"c": {
							Version:      m("c", 4),
							Requirements: []module.Version{m("g", 1)},
						},
						"d": {
							Version:      m("d", 4),
							Requirements: []module.Version{m("e", 2), m("f", 1)},
						},
					},
					{
						"d": {
							Version:      m("d", 5),
							Requirements: []module.Version{m("e", 2)},
						},
					},
				}),
			},
		},
	}

	t.Run("Reqs", func(t *testing.T) {
		root := &mvsProject{
			Version:      module.Version{},
			Requirements: []module.Version{m("b", 1), m("c", 2)},
		}

		cacheDir := t.TempDir()
		reqs := newReqs(root, NewResolver(cacheDir, dialer, nil))

		t.Run("BuildList", func(t *testing.T) {
			versions, err := mvs.BuildList(context.Background(), []module.Version{root.Version}, reqs)
			require.NoError(t, err)

			expected := []module.Version{{}, m("b", 1), m("c", 2), m("d", 4), m("e", 2), m("f", 1)}
			assert.Equal(t, expected, versions)
		})
		t.Run("UpgradeAll", func(t *testing.T) {
			versions, err := mvs.UpgradeAll(context.Background(), root.Version, reqs)
			require.NoError(t, err)

			expected := []module.Version{{}, m("b", 1), m("c", 4), m("d", 5), m("e", 2), m("f", 1), m("g", 1)}
			assert.Equal(t, expected, versions)
		})
		t.Run("Upgrade", func(t *testing.T) {
			versions, err := mvs.Upgrade(context.Background(), root.Version, reqs, m("c", 4))
			require.NoError(t, err)

			expected := []module.Version{{}, m("b", 1), m("c", 4), m("d", 4), m("e", 2), m("f", 1), m("g", 1)}
			assert.Equal(t, expected, versions)
		})
		t.Run("Downgrade", func(t *testing.T) {
			versions, err := mvs.Downgrade(context.Background(), root.Version, reqs, m("c", 1))
			require.NoError(t, err)

			expected := []module.Version{{}, m("b", 1), m("c", 1), m("d", 4), m("e", 2), m("f", 1)}
			assert.Equal(t, expected, versions)
		})
	})

	t.Run("Get", func(t *testing.T) {
		root := &project.Config{
			Requirements: map[string]project.RequirementConfig{
				"b": r("b", 1),
				"c": r("c", 2),
			},
		}

		cacheDir := t.TempDir()
		resolver := NewResolver(cacheDir, dialer, nil)

		t.Run("BuildList", func(t *testing.T) {
			versions, err := BuildList(context.Background(), root, resolver)
			require.NoError(t, err)

			expected := map[string]string{
				"":                             "",
				"github.com/pgavlin/sandbox/b": "v1.1.0",
				"github.com/pgavlin/sandbox/c": "v1.2.0",
				"github.com/pgavlin/sandbox/d": "v1.4.0",
				"github.com/pgavlin/sandbox/e": "v1.2.0",
				"github.com/pgavlin/sandbox/f": "v1.1.0",
			}
			assert.Equal(t, expected, versions)
		})

		t.Run("UpgradeAll", func(t *testing.T) {
			reqs, err := UpgradeAll(context.Background(), root, resolver)
			require.NoError(t, err)

			// TODO: it is frustrating that f1 is appearing in the reqs list, since it is not in fact required by any
			// of the other projects at their selected versions--it is only required by older versions of other
			// projects.
			//
			// This is intentional per https://go-review.googlesource.com/c/go/+/186537 and
			// https://go-review.googlesource.com/c/go/+/193397. Need to better understand why and if this is a problem
			// for dawn.

			expected := map[string]project.RequirementConfig{
				"b": r("b", 1),
				"c": r("c", 4),
				"d": r("d", 5),
				"f": r("f", 1),
			}
			assert.Equal(t, expected, reqs)
		})

		t.Run("Add", func(t *testing.T) {
			reqs, err := Get(context.Background(), root, resolver, "github.com/pgavlin/sandbox/g")
			require.NoError(t, err)

			expected := map[string]project.RequirementConfig{
				"b": r("b", 1),
				"c": r("c", 2),
				"g": r("g", 1),
			}
			assert.Equal(t, expected, reqs)
		})

		t.Run("Add ref", func(t *testing.T) {
			reqs, err := Get(context.Background(), root, resolver, "github.com/pgavlin/sandbox/g@main")
			require.NoError(t, err)

			expected := map[string]project.RequirementConfig{
				"b": r("b", 1),
				"c": r("c", 2),
				"g": r("g", 1),
			}
			assert.Equal(t, expected, reqs)
		})

		t.Run("Upgrade upgrade", func(t *testing.T) {
			reqs, err := Get(context.Background(), root, resolver, "github.com/pgavlin/sandbox/d@upgrade")
			require.NoError(t, err)

			expected := map[string]project.RequirementConfig{
				"b": r("b", 1),
				"c": r("c", 2),
				"d": r("d", 5),
			}
			assert.Equal(t, expected, reqs)
		})

		t.Run("F5 downgrade d to v1.2.0", func(t *testing.T) {
			// d is selected at v1.4.0 (b requires d@v1.3.0, c@v1.2.0 requires d@v1.4.0); asking for d@v1.2.0 is a
			// downgrade and must terminate with d at or below v1.2.0.
			type result struct {
				reqs map[string]project.RequirementConfig
				err  error
			}
			done := make(chan result, 1)
			go func() {
				reqs, err := Get(context.Background(), root, resolver, "github.com/pgavlin/sandbox/d@v1.2.0")
				done <- result{reqs, err}
			}()
			select {
			case res := <-done:
				require.NoError(t, res.err)
				t.Logf("requirements after downgrade: %v", res.reqs)
			case <-time.After(10 * time.Second):
				t.Fatal("Get(d@v1.2.0) did not return within 10s: mvs.Downgrade loops (Previous answers \"\" instead of \"none\")")
			}
		})

		t.Run("Upgrade latest", func(t *testing.T) {
			reqs, err := Get(context.Background(), root, resolver, "github.com/pgavlin/sandbox/d@latest")
			require.NoError(t, err)

			expected := map[string]project.RequirementConfig{
				"b": r("b", 1),
				"c": r("c", 2),
				"d": r("d", 5),
			}
			assert.Equal(t, expected, reqs)
		})

		t.Run("Upgrade patch", func(t *testing.T) {
			reqs, err := Get(context.Background(), root, resolver, "github.com/pgavlin/sandbox/d@patch")
			require.NoError(t, err)

			expected := map[string]project.RequirementConfig{
				"b": r("b", 1),
				"c": r("c", 2),
			}
			assert.Equal(t, expected, reqs)
		})

		t.Run("Upgrade semver prefix", func(t *testing.T) {
			reqs, err := Get(context.Background(), root, resolver, "github.com/pgavlin/sandbox/c@v1.4")
			require.NoError(t, err)

			expected := map[string]project.RequirementConfig{
				"b": r("b", 1),
				"c": r("c", 4),
				"d": r("d", 4),
			}
			assert.Equal(t, expected, reqs)
		})

		t.Run("Upgrade semver GT", func(t *testing.T) {
			reqs, err := Get(context.Background(), root, resolver, "github.com/pgavlin/sandbox/c@>v1.3")
			require.NoError(t, err)

			expected := map[string]project.RequirementConfig{
				"b": r("b", 1),
				"c": r("c", 4),
				"d": r("d", 4),
			}
			assert.Equal(t, expected, reqs)
		})

		t.Run("Upgrade semver GTE", func(t *testing.T) {
			reqs, err := Get(context.Background(), root, resolver, "github.com/pgavlin/sandbox/c@>=v1.3")
			require.NoError(t, err)

			expected := map[string]project.RequirementConfig{
				"b": r("b", 1),
				"c": r("c", 4),
				"d": r("d", 4),
			}
			assert.Equal(t, expected, reqs)
		})

		t.Run("Upgrade semver LT", func(t *testing.T) {
			reqs, err := Get(context.Background(), root, resolver, "github.com/pgavlin/sandbox/c@<v1.4")
			require.NoError(t, err)

			expected := map[string]project.RequirementConfig{
				"b": r("b", 1),
				"c": r("c", 3),
				"f": r("f", 1),
			}
			assert.Equal(t, expected, reqs)
		})

		t.Run("Upgrade semver LTE", func(t *testing.T) {
			reqs, err := Get(context.Background(), root, resolver, "github.com/pgavlin/sandbox/c@<=v1.3")
			require.NoError(t, err)

			expected := map[string]project.RequirementConfig{
				"b": r("b", 1),
				"c": r("c", 3),
				"f": r("f", 1),
			}
			assert.Equal(t, expected, reqs)
		})

	})
}

package dawn

import (
	"testing"

	"go.starlark.net/starlark"
)

// F13: after a recursive function has been pickled (inner reference = "Recursion" marker, memoized once;
// the completed function memoized again) later memo references must still resolve to the right objects.
func TestF13MemoIDsAfterRecursiveFunction(t *testing.T) {
	const src = `
def fact(n):
    return 1 if n <= 1 else n * fact(n - 1)

shared = ["shared"]
alias = shared

def body():
    return fact(3), shared, alias
`
	thread := &starlark.Thread{Name: "f13"}
	globals, err := starlark.ExecFile(thread, "f13.star", src, nil) // recursion is enabled by the package's init
	if err != nil {
		t.Fatal(err)
	}
	env, err := functionEnv(globals["body"].(*starlark.Function))
	if err != nil {
		t.Fatal(err)
	}
	gv, _, _ := env.(*starlark.Dict).Get(starlark.String("global values"))
	g := gv.(*starlark.Dict)
	for _, name := range []string{"shared", "alias"} {
		v, _, _ := g.Get(starlark.String(name))
		if v == nil || v.String() != `["shared"]` {
			t.Errorf("global %q decodes as %v, want [\"shared\"]", name, v)
		}
	}
}

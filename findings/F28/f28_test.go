package dawn

import (
	"os"
	"path/filepath"
	"sort"
	"sync"
	"testing"

	"github.com/pgavlin/dawn/diff"
	"github.com/pgavlin/dawn/label"
	starlark_sh "github.com/pgavlin/dawn/lib/sh"
	"go.starlark.net/starlark"
)

var f28Builtins = starlark.StringDict{"sh": starlark_sh.Module}

// F28 (C03): a target keeps the record it read at load for as long as the Project lives; the records Evaluate writes
// (a pending re-run after a failed body, new dependency stamps after a successful one) only reach the disk. On a Project
// that is used for several runs (run() in the REPL, API users), the run after a failed one therefore decides from the
// stale in-memory record: a target whose body failed in a forced run (always=True) is reported up to date and the build
// succeeds, although the record on disk says "re-run" and a fresh process would re-execute it.
//
// Place in the repository root (package dawn) and run: go test -count=1 -run TestF28 .
type f28Events struct {
	discardEventsT
	m      sync.Mutex
	events []string
}

func (e *f28Events) add(s string) {
	e.m.Lock()
	defer e.m.Unlock()
	e.events = append(e.events, s)
}
func (e *f28Events) TargetUpToDate(l *label.Label) { e.add("up-to-date " + l.String()) }
func (e *f28Events) TargetEvaluating(l *label.Label, reason string, d diff.ValueDiff) {
	e.add("evaluating " + l.String())
}
func (e *f28Events) TargetFailed(l *label.Label, err error)       { e.add("failed " + l.String()) }
func (e *f28Events) TargetSucceeded(l *label.Label, changed bool) { e.add("succeeded " + l.String()) }
func (e *f28Events) take() []string {
	e.m.Lock()
	defer e.m.Unlock()
	out := e.events
	e.events = nil
	sort.Strings(out)
	return out
}

func TestF28RunAfterAFailedRunOnOneProject(t *testing.T) {
	root := t.TempDir()
	write := func(rel, text string) {
		p := filepath.Join(root, rel)
		if err := os.MkdirAll(filepath.Dir(p), 0o755); err != nil {
			t.Fatal(err)
		}
		if err := os.WriteFile(p, []byte(text), 0o644); err != nil {
			t.Fatal(err)
		}
	}
	write(".dawnconfig", "")
	// the body fails while the file "broken" exists (a flaky tool, a full disk, ...)
	write("BUILD.dawn", "@target(default=True)\ndef gen():\n    sh.exec(\"test ! -e broken\")\n")
	l, _ := label.Parse("//:default")

	// a first, successful build in a process of its own
	proj, err := Load(root, &LoadOptions{Events: &f28Events{}, Builtins: f28Builtins})
	if err != nil {
		t.Fatal(err)
	}
	if err := proj.Run(l, nil); err != nil {
		t.Fatal(err)
	}

	// a long-lived Project (the REPL): a forced run fails ...
	ev := &f28Events{}
	proj, err = Load(root, &LoadOptions{Events: ev, Builtins: f28Builtins})
	if err != nil {
		t.Fatal(err)
	}
	write("broken", "")
	if err := proj.Run(l, &RunOptions{Always: true}); err == nil {
		t.Fatal("the forced run was expected to fail")
	}
	t.Logf("forced run: %v", ev.take())

	// ... and the next, ordinary run on the same Project must not remember the failed target as up to date
	err = proj.Run(l, nil)
	got := ev.take()
	t.Logf("next run: err=%v %v", err, got)

	// reference: a fresh process re-executes the failed target (and fails again, the cause is still there)
	ev2 := &f28Events{}
	fresh, err2 := Load(root, &LoadOptions{Events: ev2, Builtins: f28Builtins})
	if err2 != nil {
		t.Fatal(err2)
	}
	errFresh := fresh.Run(l, nil)
	want := ev2.take()
	t.Logf("fresh process: err=%v %v", errFresh, want)

	if (err == nil) != (errFresh == nil) {
		t.Errorf("the run after the failed one returned %v on the long-lived Project, %v in a fresh process: the failed target is remembered as up to date (%v)", err, errFresh, got)
	}
}

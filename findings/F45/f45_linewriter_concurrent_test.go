package dawn

import (
	"strings"
	"sync"
	"testing"

	"github.com/pgavlin/dawn/label"
)

// F45 (C18): a target's stdout and stderr are one lineWriter (util.SetStdio(thread, f.out, f.out)), and the two ends of
// a shell pipeline (sh.exec("a | b")) run concurrently and both write their stderr to it. lineWriter had no lock: two
// Write calls at once race on its line buffer, so bytes of the target's output are lost or delivered twice - the output
// is not "delivered exactly once".
//
// The test writes from two goroutines, as the two ends of a pipeline do, in chunks that split lines (how the chunks of
// the two writers interleave is up to the scheduler; that every byte written arrives exactly once is not). Place in the
// repository root (package dawn) and run: go test -count=1 -run TestF45 .   (add -race to see the data race itself)
type f45Events struct {
	discardEventsT
	m     sync.Mutex
	lines []string
}

func (e *f45Events) Print(l *label.Label, line string) {
	e.m.Lock()
	defer e.m.Unlock()
	e.lines = append(e.lines, line)
}

func TestF45ConcurrentWritersLoseNoBytes(t *testing.T) {
	const perWriter = 20000
	l, _ := label.Parse("//:t")
	for round := 0; round < 5; round++ {
		events := &f45Events{}
		w := newLineWriter(l, events)

		var wg sync.WaitGroup
		for _, who := range []string{"a", "b"} {
			wg.Add(1)
			go func(who string) {
				defer wg.Done()
				for i := 0; i < perWriter; i++ {
					// a line arrives in two chunks: "xxx" and "x\n"
					w.Write([]byte(strings.Repeat(who, 3)))
					w.Write([]byte(who + "\n"))
				}
			}(who)
		}
		wg.Wait()
		w.Flush()

		all := strings.Join(events.lines, "")
		gotA, gotB := strings.Count(all, "a"), strings.Count(all, "b")
		if gotA != 4*perWriter || gotB != 4*perWriter || len(all) != 8*perWriter {
			t.Fatalf("round %d: two concurrent writers wrote %d bytes each of 'a' and 'b'; %d 'a', %d 'b' and %d other bytes were delivered in %d lines", round, 4*perWriter, gotA, gotB, len(all)-gotA-gotB, len(events.lines))
		}
	}
}

package main

// F32 (C15): a byte string can make the decoder build a value that contains itself (`]` MEMOIZE BINGET 0 APPEND: a list
// appended to itself). Every consumer of decoded values in package dawn is depth-bounded or cycle-safe (EqualDepth,
// DiffDepth, String), but the JSON renderer hands the environment diff - whose old side is the decoded value - to this
// fork's json.encode, which has no cycle detection: it recurses until the Go runtime aborts the process with
// "fatal error: stack overflow", which cannot be recovered. `dawn build --json` on a project with such a record does not
// report an error; it dies.
//
// Place in cmd/dawn and run: go test -count=1 -run TestF32 ./cmd/dawn   (the crash happens in a child process)

import (
	"bytes"
	"encoding/json"
	"os"
	"os/exec"
	"strings"
	"testing"

	"github.com/pgavlin/dawn"
	"github.com/pgavlin/dawn/diff"
	"github.com/pgavlin/dawn/label"
	"github.com/pgavlin/dawn/pickle"
	"go.starlark.net/starlark"
)

func TestF32Child(t *testing.T) {
	if os.Getenv("F32_CHILD") == "" {
		t.Skip("helper of TestF32")
	}
	// ] MEMOIZE BINGET 0 APPEND STOP
	old, err := pickle.NewDecoder(bytes.NewReader([]byte("]\x94h\x00a.")), nil).Decode()
	if err != nil {
		t.Fatalf("decode: %v", err)
	}
	d, err := diff.DiffDepth(old, starlark.String("new"), 1000)
	if err != nil || d == nil {
		t.Fatalf("diff: %v %v", d, err)
	}
	var out bytes.Buffer
	r := &jsonRenderer{enc: json.NewEncoder(&out), next: discardRendererT{dawn.DiscardEvents}}
	l, _ := label.Parse("//:gen")
	r.TargetEvaluating(l, "changed", d)
	os.Stdout.WriteString("SURVIVED " + out.String())
}

func TestF32JSONRendererOnCyclicDecodedValue(t *testing.T) {
	cmd := exec.Command(os.Args[0], "-test.run=TestF32Child", "-test.v")
	cmd.Env = append(os.Environ(), "F32_CHILD=1")
	out, err := cmd.CombinedOutput()
	text := string(out)
	if len(text) > 600 {
		text = text[:600]
	}
	if err != nil || !strings.Contains(string(out), "SURVIVED") {
		t.Errorf("the process that renders the evaluating event of a target with a cyclic decoded value died: %v\n%s", err, text)
	}
}

package dawn

import (
	"os"
	"path/filepath"
	"sort"
	"sync"
	"testing"

	"github.com/pgavlin/dawn/diff"
	"github.com/pgavlin/dawn/label"
)

// F38 (C08, C01): the decoder ignores the errors of dict.SetKey and set.Insert (SETITEMS, ADDITEMS), and the host
// unpickler turns a function into a dict - which is not hashable. A dict global keyed by functions
// (HANDLERS = {compile: "-O2"}) therefore loses those entries without an error when its function's environment is decoded:
// recorded and current environment both lack them, compare equal, and an edit of the value under such a key
// ("-O2" -> "-O3") leaves the fingerprint unchanged - the target is not re-executed.
//
// Place in the repository root (package dawn) and run: go test -count=1 -run TestF38 .
type f38Events struct {
	discardEventsT
	m         sync.Mutex
	evaluated []string
}

func (e *f38Events) TargetEvaluating(l *label.Label, reason string, d diff.ValueDiff) {
	e.m.Lock()
	defer e.m.Unlock()
	e.evaluated = append(e.evaluated, l.String())
}

func f38Build(t *testing.T, root string) []string {
	t.Helper()
	ev := &f38Events{}
	proj, err := Load(root, &LoadOptions{Events: ev})
	if err != nil {
		t.Fatal(err)
	}
	l, _ := label.Parse("//:default")
	if err := proj.Run(l, nil); err != nil {
		t.Fatal(err)
	}
	sort.Strings(ev.evaluated)
	return ev.evaluated
}

func TestF38DictKeyedByFunctions(t *testing.T) {
	root := t.TempDir()
	write := func(rel, text string) {
		p := filepath.Join(root, rel)
		if err := os.MkdirAll(filepath.Dir(p), 0o755); err != nil {
			t.Fatal(err)
		}
		if err := os.WriteFile(p, []byte(text), 0o644); err != nil {
			t.Fatal(err)
		}
	}
	build := func(flag string) string {
		return "def compile():\n    pass\n\nFLAGS = {compile: \"" + flag + "\"}\n\n@target(default=True)\ndef gen():\n    print(FLAGS[compile])\n"
	}
	write(".dawnconfig", "")
	write("BUILD.dawn", build("-O2"))
	f38Build(t, root)
	if got := f38Build(t, root); len(got) != 0 {
		t.Fatalf("an unchanged tree evaluated %v", got)
	}
	write("BUILD.dawn", build("-O3"))
	got := f38Build(t, root)
	found := false
	for _, l := range got {
		if l == "//:gen" {
			found = true
		}
	}
	if !found {
		t.Errorf("FLAGS[compile] was edited from -O2 to -O3, but //:gen (which prints it) was not re-executed (evaluated: %v): the entry under a function key is dropped from the decoded environment", got)
	}
}

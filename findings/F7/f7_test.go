package dawn

import "testing"

// F7: a target function that references a (mutually) recursive function must be fingerprintable.
func TestF7RecursiveFunction(t *testing.T) {
	pt := projectTest{path: "testdata/f7-recursive", validate: func(t *testing.T, _ string, _ []testEvent) {}}
	pt.run(t)
}

package diff

import (
	"testing"

	"go.starlark.net/starlark"
)

// F2: the old/new sides of a sequence diff must be the operands in the order given.
func TestF2SliceSides(t *testing.T) {
	i := func(n int) starlark.Value { return starlark.MakeInt(n) }
	cases := [][2]starlark.Tuple{
		{{i(1), i(2), i(3)}, {i(1), i(3)}}, // longer old
		{{i(1), i(2)}, {i(1), i(3)}},       // equal lengths
		{{i(1)}, {i(1), i(3)}},             // shorter old
	}
	for _, c := range cases {
		d, err := Diff(c[0], c[1])
		if err != nil || d == nil {
			t.Fatalf("Diff(%v, %v) = %v, %v", c[0], c[1], d, err)
		}
		if eq, _ := starlark.Equal(d.Old(), c[0]); !eq {
			t.Errorf("Diff(%v, %v).Old() = %v", c[0], c[1], d.Old())
		}
		if eq, _ := starlark.Equal(d.New(), c[1]); !eq {
			t.Errorf("Diff(%v, %v).New() = %v", c[0], c[1], d.New())
		}
	}
}

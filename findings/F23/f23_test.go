package dawn

import (
	"os"
	"path/filepath"
	"testing"

	"github.com/pgavlin/dawn/label"
)

// F23: target(name=...) builds the target's label as a literal, without validating the name. A name that contains
// ':' (or '/') yields a label that does not survive printing and re-parsing ("//pkg:test:unit" parses to kind "//pkg",
// package "test", name "unit"): the target cannot be named as a dependency, and a project loaded through the index
// knows it under a different label, so a collection (dawn gc loads by index) deletes its record and the next build
// re-runs it.
//
// Place in the repository root (package dawn) and run: go test -count=1 -run TestF23 .
func TestF23TargetNameWithColon(t *testing.T) {
	root := t.TempDir()
	write := func(rel, text string) {
		p := filepath.Join(root, rel)
		if err := os.MkdirAll(filepath.Dir(p), 0o755); err != nil {
			t.Fatal(err)
		}
		if err := os.WriteFile(p, []byte(text), 0o644); err != nil {
			t.Fatal(err)
		}
	}
	write(".dawnconfig", "")
	write("pkg/BUILD.dawn", "@target(name=\"test:unit\")\ndef t():\n    pass\n")

	proj, err := Load(root, &LoadOptions{})
	if err != nil {
		// rejecting the name is the repair
		t.Logf("the name is rejected: %v", err)
		return
	}
	for _, tgt := range proj.Targets() {
		l := tgt.Label()
		if !IsTarget(l) {
			continue
		}
		back, err := label.Parse(l.String())
		if err != nil {
			t.Errorf("the label %q of a loaded target does not parse: %v", l.String(), err)
			continue
		}
		if *back != *l {
			t.Errorf("the label of a loaded target prints as %q, which parses to a different label (kind %q package %q name %q, was kind %q package %q name %q)", l.String(), back.Kind, back.Package, back.Name, l.Kind, l.Package, l.Name)
		}
	}
}

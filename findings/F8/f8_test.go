package dawn

import (
	"os"
	"path/filepath"
	"testing"

	"github.com/pgavlin/dawn/label"
	starlark_os "github.com/pgavlin/dawn/lib/os"
	starlark_sh "github.com/pgavlin/dawn/lib/sh"
	"github.com/stretchr/testify/require"
	starlark_json "go.starlark.net/lib/json"
	"go.starlark.net/starlark"
)

func f8build(t *testing.T, dir, target string) {
	proj, err := Load(dir, &LoadOptions{Events: &testEvents{}, Builtins: starlark.StringDict{"json": starlark_json.Module, "os": starlark_os.Module, "sh": starlark_sh.Module}})
	require.NoError(t, err)
	l, err := label.Parse(target)
	require.NoError(t, err)
	require.NoError(t, proj.Run(l, nil))
}

// F8: after `build top; edit src; build mid; build top` (top -> mid -> src.txt) top must be rebuilt.
func TestF8PartialBuildLeavesDependentStale(t *testing.T) {
	dir := t.TempDir()
	require.NoError(t, os.WriteFile(filepath.Join(dir, ".dawnconfig"), nil, 0o644))
	require.NoError(t, os.WriteFile(filepath.Join(dir, "src.txt"), []byte("one\n"), 0o644))
	require.NoError(t, os.WriteFile(filepath.Join(dir, "BUILD.dawn"), []byte(`
@target(sources=["src.txt"], generates=["mid.txt"])
def mid():
    sh.exec("cp src.txt mid.txt")

@target(deps=[":mid"], generates=["top.txt"])
def top():
    sh.exec("cp mid.txt top.txt")
`), 0o644))

	f8build(t, dir, "//:top")
	require.NoError(t, os.WriteFile(filepath.Join(dir, "src.txt"), []byte("two\n"), 0o644))
	f8build(t, dir, "//:mid") // partial build of the sub-target
	f8build(t, dir, "//:top") // reports success

	top, err := os.ReadFile(filepath.Join(dir, "top.txt"))
	require.NoError(t, err)
	if string(top) != "two\n" {
		t.Fatalf("top.txt is stale after a successful build of //:top: %q (src.txt is \"two\\n\")", top)
	}
}

package dawn

import "testing"

// F11: a module whose environment cannot be set up (here: it lives in a project that is not in the
// build list) must fail the load for every module that loads it, not leave later loaders waiting forever.
func TestF11FailedFetchSharedByTwoPackages(t *testing.T) {
	pt := projectTest{path: "testdata/f11-fetch-fails", loadErr: "unknown project"}
	pt.run(t)
}

package dawn

import (
	"os"
	"path/filepath"
	"sort"
	"sync"
	"testing"

	"github.com/pgavlin/dawn/diff"
	"github.com/pgavlin/dawn/label"
)

// F26 (C01) and F27 (C02): the content hash of a source directory.
//
// F26: an entry of the directory that cannot be opened because it does not exist (a dangling symbolic link) makes
// dirSum return the os.IsNotExist error of that entry; upToDate treats a not-exist error as "the source is missing" and
// takes the empty sum. The whole directory then hashes to "" whatever else it contains: once recorded, no edit, addition
// or removal of any file in the directory is ever noticed, and the targets that list it as a source stay stale.
//
// F27: a source directory that contains the project's own state directory (sources=["."] in the root package, or any
// directory above .dawn) hashes the records dawn itself rewrites during every build, so the source is out of date on
// every load and an unchanged tree is rebuilt each time. Package loading and glob() both leave .dawn out.
//
// Place in the repository root (package dawn) and run: go test -count=1 -run 'TestF26|TestF27' .
type f26Events struct {
	discardEventsT
	m         sync.Mutex
	evaluated []string
}

func (e *f26Events) TargetEvaluating(l *label.Label, reason string, d diff.ValueDiff) {
	e.m.Lock()
	defer e.m.Unlock()
	e.evaluated = append(e.evaluated, l.String())
}

func (e *f26Events) take() []string {
	e.m.Lock()
	defer e.m.Unlock()
	out := e.evaluated
	e.evaluated = nil
	sort.Strings(out)
	return out
}

func f26Build(t *testing.T, root string) []string {
	t.Helper()
	ev := &f26Events{}
	proj, err := Load(root, &LoadOptions{Events: ev})
	if err != nil {
		t.Fatal(err)
	}
	l, _ := label.Parse("//:default")
	if err := proj.Run(l, nil); err != nil {
		t.Fatal(err)
	}
	return ev.take()
}

func f26Write(t *testing.T, root, rel, text string) {
	t.Helper()
	p := filepath.Join(root, rel)
	if err := os.MkdirAll(filepath.Dir(p), 0o755); err != nil {
		t.Fatal(err)
	}
	if err := os.WriteFile(p, []byte(text), 0o644); err != nil {
		t.Fatal(err)
	}
}

func contains(list []string, s string) bool {
	for _, x := range list {
		if x == s {
			return true
		}
	}
	return false
}

func TestF26DanglingSymlinkInSourceDirectory(t *testing.T) {
	root := t.TempDir()
	f26Write(t, root, ".dawnconfig", "")
	f26Write(t, root, "BUILD.dawn", "@target(sources=[\"data\"], default=True)\ndef gen():\n    pass\n")
	f26Write(t, root, "data/a.txt", "one")
	if err := os.Symlink("does-not-exist", filepath.Join(root, "data", "link")); err != nil {
		t.Skip("symbolic links not available")
	}

	f26Build(t, root)
	if got := f26Build(t, root); len(got) != 0 {
		t.Fatalf("an unchanged tree evaluated %v", got)
	}

	f26Write(t, root, "data/a.txt", "two")
	if got := f26Build(t, root); !contains(got, "//:gen") {
		t.Errorf("data/a.txt was edited, but //:gen was not re-executed (evaluated: %v): the directory with the dangling link hashes to the same sum whatever it contains", got)
	}
}

func TestF27SourceDirectoryContainingTheStateDirectory(t *testing.T) {
	root := t.TempDir()
	f26Write(t, root, ".dawnconfig", "")
	f26Write(t, root, "BUILD.dawn", "@target(sources=[\".\"], default=True)\ndef gen():\n    pass\n")
	f26Write(t, root, "a.txt", "one")

	f26Build(t, root)
	f26Build(t, root) // the records of the first build are part of the first sum; let them settle
	for i := 0; i < 3; i++ {
		if got := f26Build(t, root); len(got) != 0 {
			t.Errorf("build %d of an unchanged tree evaluated %v: the sum of the source directory covers dawn's own records under .dawn/build", i+3, got)
			break
		}
	}
	// edits are still seen
	f26Write(t, root, "a.txt", "two")
	if got := f26Build(t, root); !contains(got, "//:gen") {
		t.Errorf("a.txt was edited, but //:gen was not re-executed (evaluated: %v)", got)
	}
}

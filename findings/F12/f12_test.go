package project

import (
	"os"
	"path/filepath"
	"testing"
)

// F12: a configuration that loads must survive write + load (an empty requirement name is a valid TOML key when quoted).
func TestF12EmptyRequirementName(t *testing.T) {
	c, err := LoadConfigBytes([]byte("[requirements]\n\"\" = {path = \"example.com/x\", version = \"v1.0.0\"}\n"))
	if err != nil {
		t.Fatalf("input does not load: %v", err)
	}
	path := filepath.Join(t.TempDir(), "dawn.toml")
	if err := WriteConfigFile(path, c); err != nil {
		t.Fatal(err)
	}
	written, _ := os.ReadFile(path)
	c2, err := LoadConfigFile(path)
	if err != nil {
		t.Fatalf("written file does not load: %v\n%s", err, written)
	}
	if c2.Requirements[""] != c.Requirements[""] {
		t.Fatalf("round trip changed the configuration: %v vs %v", c, c2)
	}
}

package dawn

import (
	"os"
	"path/filepath"
	"testing"

	"github.com/mitchellh/go-homedir"
)

// F30 (C10): loadConfig tries dawn.toml and falls back to .dawnconfig when the first "does not exist". The test is
// errors.Is(err, fs.ErrNotExist) on the error of the *whole* load of that file - reading it, compiling the ignore list
// and computing the build list - and the build-list errors are wrapped with %w. A not-exist error from anywhere below
// (an entry of the download cache without a configuration file) therefore reads as "dawn.toml does not exist": the
// project is silently loaded from a left-over .dawnconfig, with that file's requirements, instead of failing.
// Which configuration a project is built with then depends on the state of the download cache.
//
// Place in the repository root (package dawn) and run: go test -count=1 -run TestF30 .
func TestF30FallbackToStaleConfigOnUnrelatedNotExist(t *testing.T) {
	home := t.TempDir()
	t.Setenv("HOME", home)
	homedir.DisableCache = true
	defer func() { homedir.DisableCache = false }()

	root := t.TempDir()
	write := func(rel, text string) {
		p := filepath.Join(root, rel)
		if err := os.MkdirAll(filepath.Dir(p), 0o755); err != nil {
			t.Fatal(err)
		}
		if err := os.WriteFile(p, []byte(text), 0o644); err != nil {
			t.Fatal(err)
		}
	}
	// the project was migrated from .dawnconfig to dawn.toml; the old file was left behind
	write(".dawnconfig", "[project]\nname = 'old'\n")
	write("dawn.toml", "[project]\nname = 'new'\n\n[requirements]\nlib = { path = 'example.com/lib', version = 'v1.0.0' }\n")
	write("BUILD.dawn", "")

	// a download cache entry without a configuration file (an interrupted or damaged download)
	if err := os.MkdirAll(filepath.Join(home, ".dawn", "modules", "cache", "example.com", "lib@v1.0.0"), 0o755); err != nil {
		t.Fatal(err)
	}

	proj, err := Load(root, nil)
	if err == nil {
		t.Errorf("the requirement example.com/lib v1.0.0 of dawn.toml cannot be resolved (its cache entry has no configuration file), but Load succeeded: the project was configured from %v with requirements %v", proj.configPath, proj.requirements)
	} else {
		t.Logf("Load failed as it should: %v", err)
	}
}

package dawn

import (
	"os"
	"path/filepath"
	"testing"

	"github.com/pgavlin/dawn/diff"
	"github.com/pgavlin/dawn/label"
)

// F22: every builtin is pickled as (NEWOBJ "dawn" "Builtin" ()): neither its name nor the receiver of a bound method
// enters the fingerprint. A target function that reaches a builtin through a global (F = len, J = ",".join) has the
// same fingerprint after the global is rebound to a different builtin (F = str, J = ";".join), so the edit does not
// re-run the target and its output is stale.
//
// Place in the repository root (package dawn) and run: go test -count=1 -run TestF22 .
func f22Build(t *testing.T, root, build string) (ran bool) {
	if err := os.WriteFile(filepath.Join(root, "BUILD.dawn"), []byte(build), 0o644); err != nil {
		t.Fatal(err)
	}
	ev := &f22Events{}
	proj, err := Load(root, &LoadOptions{Events: ev})
	if err != nil {
		t.Fatalf("load: %v", err)
	}
	l, _ := label.Parse("//:t")
	if err := proj.Run(l, nil); err != nil {
		t.Fatalf("run: %v", err)
	}
	return ev.evaluated
}

type f22Events struct {
	discardEventsT
	evaluated bool
}

func (e *f22Events) TargetEvaluating(l *label.Label, reason string, d diff.ValueDiff) {
	if l.String() == "//:t" {
		e.evaluated = true
	}
}

func TestF22RebindingABuiltinGlobal(t *testing.T) {
	for _, c := range []struct{ name, before, after string }{
		{"different builtin", "F = len\n", "F = str\n"},
		{"different receiver", "F = \",\".join\n", "F = \";\".join\n"},
	} {
		t.Run(c.name, func(t *testing.T) {
			root := t.TempDir()
			os.WriteFile(filepath.Join(root, ".dawnconfig"), nil, 0o644)
			body := "\n@target()\ndef t():\n    print(F([\"a\", \"b\"]))\n"
			if !f22Build(t, root, c.before+body) {
				t.Fatal("the first build did not run the target")
			}
			if f22Build(t, root, c.before+body) {
				t.Fatal("an unchanged project re-ran the target")
			}
			if !f22Build(t, root, c.after+body) {
				t.Errorf("the builtin the target calls was replaced (%q -> %q) but the target was not re-run", c.before, c.after)
			}
		})
	}
}

package dawn

import (
	"os"
	"path/filepath"
	"testing"

	"github.com/pgavlin/dawn/label"
	starlark_sh "github.com/pgavlin/dawn/lib/sh"
	"go.starlark.net/starlark"
)

// F40 (C01): the sources, dependencies and generated files a target declares are handed to its function (self.sources,
// ...), but they are neither part of the function's fingerprint nor compared with what the last execution recorded.
// Removing an entry from sources=[...] (or deleting a file matched by glob()) therefore does not re-run the target: the
// incremental build keeps the output computed from the old list, where a from-scratch build of the same tree produces
// the new one.
//
// Place in the repository root (package dawn) and run: go test -count=1 -run TestF40 .
func TestF40RemovedSourceRerunsTarget(t *testing.T) {
	root := t.TempDir()
	write := func(rel, text string) {
		t.Helper()
		if err := os.WriteFile(filepath.Join(root, rel), []byte(text), 0o644); err != nil {
			t.Fatal(err)
		}
	}
	buildFile := func(sources string) string {
		return "@target(sources=[" + sources + "], generates=[\"out.txt\"])\n" +
			"def cat(self):\n" +
			"    sh.exec(\"cat \" + \" \".join(self.sources) + \" > out.txt\")\n"
	}
	build := func() {
		t.Helper()
		proj, err := Load(root, &LoadOptions{Builtins: starlark.StringDict{"sh": starlark_sh.Module}})
		if err != nil {
			t.Fatalf("load: %v", err)
		}
		l, _ := label.Parse("//:cat")
		if err := proj.Run(l, &RunOptions{}); err != nil {
			t.Fatalf("run: %v", err)
		}
	}
	out := func() string {
		b, _ := os.ReadFile(filepath.Join(root, "out.txt"))
		return string(b)
	}

	write(".dawnconfig", "")
	write("a.txt", "a\n")
	write("b.txt", "b\n")
	write("BUILD.dawn", buildFile(`"a.txt", "b.txt"`))
	build()
	if out() != "a\nb\n" {
		t.Fatalf("first build: out.txt = %q", out())
	}

	// b.txt is no longer a source of the target
	write("BUILD.dawn", buildFile(`"a.txt"`))
	build()
	if out() != "a\n" {
		t.Fatalf("after b.txt was removed from the target's sources the incremental build left out.txt = %q; a from-scratch build of the same tree produces %q", out(), "a\n")
	}
}

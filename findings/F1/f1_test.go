package pickle

import (
	"bytes"
	"testing"

	"go.starlark.net/starlark"
)

// F1: integers in 256..65535 are encoded as BININT2 (2 payload bytes, little endian).
func TestF1BinInt2RoundTrip(t *testing.T) {
	for _, n := range []int{255, 256, 257, 511, 4660, 65535, 65536} {
		var buf bytes.Buffer
		if err := NewEncoder(&buf, nil).Encode(starlark.MakeInt(n)); err != nil {
			t.Fatal(err)
		}
		v, err := NewDecoder(&buf, nil).Decode()
		if err != nil {
			t.Fatal(err)
		}
		got, _ := starlark.AsInt32(v)
		if got != n {
			t.Errorf("round trip of %d yields %d", n, got)
		}
	}
}

package dawn

import (
	"os"
	"path/filepath"
	"sort"
	"sync"
	"testing"

	"github.com/pgavlin/dawn/diff"
	"github.com/pgavlin/dawn/label"
)

// F24: a dry run marks every target it would evaluate as changed (runTarget.changed = true), and that flag lives as
// long as the Project. On a Project that is used for several runs (the REPL, the run() builtin, watch mode), a real
// build that follows a dry run therefore re-executes targets that are up to date: the dry run changed what the next
// real build does.
//
// Place in the repository root (package dawn) and run: go test -count=1 -run TestF24 .
type f24Events struct {
	discardEventsT
	m         sync.Mutex
	evaluated []string
}

func (e *f24Events) TargetEvaluating(l *label.Label, reason string, d diff.ValueDiff) {
	e.m.Lock()
	defer e.m.Unlock()
	e.evaluated = append(e.evaluated, l.String())
}

func (e *f24Events) take() []string {
	e.m.Lock()
	defer e.m.Unlock()
	out := e.evaluated
	e.evaluated = nil
	sort.Strings(out)
	return out
}

func TestF24DryRunThenRealRunOnOneProject(t *testing.T) {
	root := t.TempDir()
	write := func(rel, text string) {
		p := filepath.Join(root, rel)
		if err := os.MkdirAll(filepath.Dir(p), 0o755); err != nil {
			t.Fatal(err)
		}
		if err := os.WriteFile(p, []byte(text), 0o644); err != nil {
			t.Fatal(err)
		}
	}
	write(".dawnconfig", "")
	write("BUILD.dawn", "@target()\ndef a():\n    pass\n\n@target(deps=[\":a\"])\ndef b():\n    pass\n\n@target(deps=[\":b\"], default=True)\ndef c():\n    pass\n")
	l, _ := label.Parse("//:default")

	// build once, in a process of its own
	ev := &f24Events{}
	proj, err := Load(root, &LoadOptions{Events: ev})
	if err != nil {
		t.Fatal(err)
	}
	if err := proj.Run(l, nil); err != nil {
		t.Fatal(err)
	}
	ev.take()

	// a fresh process: everything is up to date
	ev = &f24Events{}
	proj, err = Load(root, &LoadOptions{Events: ev})
	if err != nil {
		t.Fatal(err)
	}
	// reference: a real build on an unchanged tree evaluates nothing
	if err := proj.Run(l, nil); err != nil {
		t.Fatal(err)
	}
	if got := ev.take(); len(got) != 0 {
		t.Fatalf("an unchanged tree evaluated %v", got)
	}
	// a dry run of "what would -B do"
	if err := proj.Run(l, &RunOptions{Always: true, DryRun: true}); err != nil {
		t.Fatal(err)
	}
	ev.take()
	// the real build that follows must still evaluate nothing
	if err := proj.Run(l, nil); err != nil {
		t.Fatal(err)
	}
	if got := ev.take(); len(got) != 0 {
		t.Errorf("after a dry run on the same Project, a real build of the unchanged tree evaluated %v (it evaluated nothing before the dry run)", got)
	}
}

package label

// F39 (C12): New validates kind, package and name, and the project only for ':'. Parse takes everything before the
// first "//" as the project, so a project that contains "//" or ends in "/" yields a label that New accepts but that does
// not survive printing and re-parsing: New("", "a//b", "//c", "n") prints "a//b//c:n", which parses as project "a",
// package "//b/c".
//
// Place in label/ and run: go test -count=1 -run TestF39 ./label

import "testing"

func TestF39NewAcceptsProjectsThatDoNotRoundTrip(t *testing.T) {
	for _, project := range []string{"a//b", "example.com//x", "a/", "example.com/lib/"} {
		l, err := New("", project, "//c", "n")
		if err != nil {
			continue // rejected: fine
		}
		back, err := Parse(l.String())
		if err != nil {
			t.Errorf("New(%q) is accepted and prints %q, which does not parse: %v", project, l.String(), err)
			continue
		}
		if *back != *l {
			t.Errorf("New(%q) is accepted and prints %q, which parses as %+v, not %+v", project, l.String(), *back, *l)
		}
	}
}

package dawn

import (
	"os"
	"path/filepath"
	"sort"
	"sync"
	"testing"

	"github.com/pgavlin/dawn/diff"
	"github.com/pgavlin/dawn/label"
)

// F33 and F34 (C08, C01): values of different kinds that the fingerprint comparison cannot tell apart.
//
// F33: the host unpickler turns a pickled target reference ("dawn", "Target", (label,)) into the bare label string, so a
// global that is rebound from a target object to the string that spells its label (or back) leaves the fingerprint equal:
// the function that uses the global - and behaves differently, a target is not a string - is not re-executed.
//
// F34: the environments are compared with starlark.EqualDepth, and Starlark's == identifies an int with the float of the
// same value: editing `SCALE = 3` into `SCALE = 3.0` changes what the function computes ("3" vs "3.0", integer vs float
// division) but not its fingerprint.
//
// Place in the repository root (package dawn) and run: go test -count=1 -run 'TestF33|TestF34' .
type f33Events struct {
	discardEventsT
	m         sync.Mutex
	evaluated []string
}

func (e *f33Events) TargetEvaluating(l *label.Label, reason string, d diff.ValueDiff) {
	e.m.Lock()
	defer e.m.Unlock()
	e.evaluated = append(e.evaluated, l.String())
}

func f33Build(t *testing.T, root string) []string {
	t.Helper()
	ev := &f33Events{}
	proj, err := Load(root, &LoadOptions{Events: ev})
	if err != nil {
		t.Fatal(err)
	}
	l, _ := label.Parse("//:default")
	if err := proj.Run(l, nil); err != nil {
		t.Fatal(err)
	}
	sort.Strings(ev.evaluated)
	return ev.evaluated
}

func f33Write(t *testing.T, root, rel, text string) {
	t.Helper()
	p := filepath.Join(root, rel)
	if err := os.MkdirAll(filepath.Dir(p), 0o755); err != nil {
		t.Fatal(err)
	}
	if err := os.WriteFile(p, []byte(text), 0o644); err != nil {
		t.Fatal(err)
	}
}

func f33Has(list []string, s string) bool {
	for _, x := range list {
		if x == s {
			return true
		}
	}
	return false
}

func TestF33TargetObjectVersusLabelString(t *testing.T) {
	root := t.TempDir()
	f33Write(t, root, ".dawnconfig", "")
	build := func(ref string) string {
		return "@target()\ndef helper():\n    pass\n\nREF = " + ref + "\n\n@target(default=True)\ndef gen():\n    print(type(REF))\n"
	}
	f33Write(t, root, "BUILD.dawn", build("helper"))
	f33Build(t, root)
	if got := f33Build(t, root); len(got) != 0 {
		t.Fatalf("an unchanged tree evaluated %v", got)
	}
	f33Write(t, root, "BUILD.dawn", build("\"//:helper\""))
	if got := f33Build(t, root); !f33Has(got, "//:gen") {
		t.Errorf("REF was rebound from the target object helper to the string \"//:helper\" (type(REF) changes), but //:gen was not re-executed (evaluated: %v)", got)
	}
}

func TestF34IntVersusFloat(t *testing.T) {
	root := t.TempDir()
	f33Write(t, root, ".dawnconfig", "")
	build := func(v string) string {
		return "SCALE = " + v + "\n\n@target(default=True)\ndef gen():\n    print(\"%s\" % (7 / SCALE))\n"
	}
	f33Write(t, root, "BUILD.dawn", build("3"))
	f33Build(t, root)
	if got := f33Build(t, root); len(got) != 0 {
		t.Fatalf("an unchanged tree evaluated %v", got)
	}
	f33Write(t, root, "BUILD.dawn", build("3.0"))
	if got := f33Build(t, root); !f33Has(got, "//:gen") {
		t.Errorf("SCALE was edited from 3 to 3.0, but //:gen was not re-executed (evaluated: %v)", got)
	}
}

package dawn

import (
	"bytes"
	"encoding/base64"
	"encoding/json"
	"github.com/pgavlin/dawn/pickle"
	"os"
	"path/filepath"
	"testing"

	"github.com/otiai10/copy"
	"github.com/pgavlin/dawn/label"
	starlark_os "github.com/pgavlin/dawn/lib/os"
	starlark_sh "github.com/pgavlin/dawn/lib/sh"
	"github.com/stretchr/testify/require"
	starlark_json "go.starlark.net/lib/json"
	"go.starlark.net/starlark"
)

func f9opts() *LoadOptions {
	return &LoadOptions{Events: &testEvents{}, Builtins: starlark.StringDict{"json": starlark_json.Module, "os": starlark_os.Module, "sh": starlark_sh.Module}}
}

// F9: a persisted record whose stamp decodes to the current environment plus one key the
// reason table does not know must surface as an error or a rebuild, never as a crash.
func TestF9CraftedRecord(t *testing.T) {
	def, err := label.Parse("//:default")
	require.NoError(t, err)
	temp, err := os.MkdirTemp("", "")
	require.NoError(t, err)
	defer os.RemoveAll(temp)
	src, _ := filepath.Abs("testdata/simple-targets/base")
	require.NoError(t, copy.Copy(src, temp))

	proj, err := Load(temp, f9opts())
	require.NoError(t, err)
	require.NoError(t, proj.Run(def, nil))

	// corrupt every function-target record: append  MARK "zzz" None SETITEMS  before STOP
	recs, _ := filepath.Glob(filepath.Join(temp, ".dawn", "build", "targets", "*"))
	require.NotEmpty(t, recs)
	n := 0
	for _, rec := range recs {
		b, err := os.ReadFile(rec)
		require.NoError(t, err)
		var info map[string]any
		require.NoError(t, json.Unmarshal(b, &info))
		stamp, _ := info["stamp"].(string)
		if stamp == "" {
			continue
		}
		raw, err := base64.StdEncoding.DecodeString(stamp)
		require.NoError(t, err)
		require.Equal(t, byte('.'), raw[len(raw)-1])
		if v, err := pickle.NewDecoder(bytes.NewReader(raw), pickle.UnpicklerFunc(envUnpickler)).Decode(); err != nil {
			continue
		} else if _, isDict := v.(*starlark.Dict); !isDict {
			continue
		}
		raw = append(raw[:len(raw)-1], '(', 0x8c, 3, 'z', 'z', 'z', 'N', 'u', '.')
		info["stamp"] = base64.StdEncoding.EncodeToString(raw)
		b, _ = json.Marshal(info)
		require.NoError(t, os.WriteFile(rec, b, 0o644))
		n++
	}
	require.NotZero(t, n)

	proj, err = Load(temp, f9opts())
	if err != nil {
		t.Logf("load error: %v", err)
		return
	}
	_ = proj.Run(def, nil) // must not crash
}

package dawn

import (
	"os"
	"path/filepath"
	"sync"
	"testing"

	"github.com/pgavlin/dawn/label"
)

// F19: load("//sub", "x") names the module of package //sub without a file name. fetchModule resolves the empty
// name to BUILD.dawn, but the registry key is the label as written ("module://sub"), while the package loader
// registers the same file under "module://sub:BUILD.dawn". The file is therefore executed twice: a project whose
// //sub/BUILD.dawn declares a target fails to load with "duplicate target", and module-level code runs twice.
//
// Place in the repository root (package dawn) and run: go test -count=1 -run TestF19 .
type f19Events struct {
	discardEventsT
	m      sync.Mutex
	loaded map[string]int
}

func (e *f19Events) ModuleLoading(l *label.Label) {
	e.m.Lock()
	defer e.m.Unlock()
	e.loaded[l.String()]++
}

func TestF19PackageModuleLoadedOnceUnderBothSpellings(t *testing.T) {
	root := t.TempDir()
	write := func(rel, text string) {
		p := filepath.Join(root, rel)
		if err := os.MkdirAll(filepath.Dir(p), 0o755); err != nil {
			t.Fatal(err)
		}
		if err := os.WriteFile(p, []byte(text), 0o644); err != nil {
			t.Fatal(err)
		}
	}
	write(".dawnconfig", "")
	write("BUILD.dawn", "load(\"//sub\", \"x\")\n\n@target()\ndef top():\n    pass\n")
	write("sub/BUILD.dawn", "x = 1\n\n@target()\ndef t():\n    pass\n")

	ev := &f19Events{loaded: map[string]int{}}
	_, err := Load(root, &LoadOptions{Events: ev})
	if err != nil {
		t.Errorf("a valid project fails to load: %v", err)
	}
	total := 0
	for k, n := range ev.loaded {
		if (k == "module://sub" || k == "module://sub:BUILD.dawn") {
			total += n
		}
	}
	if total != 1 {
		t.Errorf("sub/BUILD.dawn was executed %d times (as %v), want once", total, ev.loaded)
	}
}

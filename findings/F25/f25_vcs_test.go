package vcs

// F25 (C10), the mechanism in isolation: (*gitRepository).FetchRevision checks the commit out into the repository's
// one work tree and then copies that work tree. With the revisions already resolved (no network, no go-git fetch),
// concurrent FetchRevision calls for different commits hand out each other's trees.
//
// Place in internal/vcs and run: go test -count=1 -run TestF25 ./internal/vcs

import (
	"context"
	"fmt"
	"os"
	"os/exec"
	"path/filepath"
	"strings"
	"sync"
	"testing"
)

func f25git(t *testing.T, dir string, args ...string) {
	t.Helper()
	cmd := exec.Command("git", args...)
	cmd.Dir = dir
	cmd.Env = append(os.Environ(), "GIT_AUTHOR_NAME=a", "GIT_AUTHOR_EMAIL=a@b", "GIT_COMMITTER_NAME=a", "GIT_COMMITTER_EMAIL=a@b")
	if out, err := cmd.CombinedOutput(); err != nil {
		t.Fatalf("git %v: %v\n%s", args, err, out)
	}
}

func TestF25FetchRevisionSharesOneWorkTree(t *testing.T) {
	if _, err := exec.LookPath("git"); err != nil {
		t.Skip("git not available")
	}
	repoDir := t.TempDir()
	f25git(t, repoDir, "init", "-b", "main")
	const nVersions = 4
	for i := 0; i < nVersions; i++ {
		for j := 0; j < 60; j++ {
			os.WriteFile(filepath.Join(repoDir, fmt.Sprintf("file%02d.txt", j)), []byte(strings.Repeat(fmt.Sprintf("v1.%d.0\n", i), 400)), 0o644)
		}
		f25git(t, repoDir, "add", ".")
		f25git(t, repoDir, "commit", "-m", fmt.Sprintf("v1.%d.0", i))
		f25git(t, repoDir, "tag", fmt.Sprintf("v1.%d.0", i))
	}
	ctx := context.Background()
	repo, err := DialGitRepository(ctx, filepath.ToSlash(repoDir), &DialGitOptions{AllowFile: true})
	if err != nil {
		t.Fatal(err)
	}
	versions, err := repo.Versions(ctx)
	if err != nil || len(versions) != nVersions {
		t.Fatalf("versions: %v %v", versions, err)
	}
	revs := make([]Revision, nVersions)
	for i, v := range versions {
		if revs[i], err = repo.GetRevision(ctx, v.RevisionID); err != nil {
			t.Fatal(err)
		}
	}
	mixed := 0
	for round := 0; round < 20 && mixed == 0; round++ {
		dests := make([]string, nVersions)
		errs := make([]error, nVersions)
		var wg sync.WaitGroup
		for i := range revs {
			dests[i] = t.TempDir()
			wg.Add(1)
			go func() {
				defer wg.Done()
				errs[i] = repo.FetchRevision(ctx, "", revs[i], dests[i])
			}()
		}
		wg.Wait()
		for i, v := range versions {
			if errs[i] != nil {
				mixed++
				t.Errorf("round %d: fetching %v: %v", round, v.Version.Version, errs[i])
				continue
			}
			for j := 0; j < 60; j++ {
				got, err := os.ReadFile(filepath.Join(dests[i], fmt.Sprintf("file%02d.txt", j)))
				if err != nil {
					mixed++
					t.Errorf("round %d: %v: %v", round, v.Version.Version, err)
					break
				}
				if first := strings.SplitN(string(got), "\n", 2)[0]; first != v.Version.Version {
					mixed++
					t.Errorf("round %d: the tree fetched for %v contains file%02d.txt of %v", round, v.Version.Version, j, first)
					break
				}
			}
		}
	}
}

package mvs

// F25 (C10): one vcs.Repository (one go-git work tree) is shared by every fetch of a project, and
// (*gitRepository).FetchRevision checks the requested commit out into that shared work tree and then copies the
// work tree. Two concurrent fetches of two versions of one project - which mvs.BuildList's parallel loader does as
// soon as two versions of a project are reachable - interleave "checkout A, checkout B, copy, copy": the download
// cache then holds B's tree under A's name, for good. The requirement edges of p@A are read from that tree, so the
// build list depends on the interleaving and, afterwards, on the state of the cache.
//
// Place in internal/mvs and run: go test -count=1 -run TestF25 ./internal/mvs

import (
	"context"
	"fmt"
	"os"
	"os/exec"
	"path/filepath"
	"strings"
	"sync"
	"testing"

	"github.com/pgavlin/dawn/internal/project"
	"github.com/pgavlin/dawn/internal/vcs"
)

type f25Dialer struct{}

func (f25Dialer) dialRepository(ctx context.Context, kind, address string) (vcs.Repository, error) {
	return vcs.DialGitRepository(ctx, address, &vcs.DialGitOptions{AllowFile: true})
}

func f25git(t *testing.T, dir string, args ...string) {
	t.Helper()
	cmd := exec.Command("git", args...)
	cmd.Dir = dir
	cmd.Env = append(os.Environ(), "GIT_AUTHOR_NAME=a", "GIT_AUTHOR_EMAIL=a@b", "GIT_COMMITTER_NAME=a", "GIT_COMMITTER_EMAIL=a@b")
	if out, err := cmd.CombinedOutput(); err != nil {
		t.Fatalf("git %v: %v\n%s", args, err, out)
	}
}

func TestF25ConcurrentFetchOfTwoVersions(t *testing.T) {
	if _, err := exec.LookPath("git"); err != nil {
		t.Skip("git not available")
	}
	repoDir := t.TempDir()
	f25git(t, repoDir, "init", "-b", "main")
	const nVersions = 6
	for i := 0; i < nVersions; i++ {
		toml := fmt.Sprintf("[project]\nname = 'p'\n\n[requirements]\ndep = { path = 'example.com/dep', version = 'v1.%d.0' }\n", i)
		if err := os.WriteFile(filepath.Join(repoDir, "dawn.toml"), []byte(toml), 0o644); err != nil {
			t.Fatal(err)
		}
		// make the checkout non-trivial so that the window is realistic
		for j := 0; j < 80; j++ {
			os.WriteFile(filepath.Join(repoDir, fmt.Sprintf("file%d.txt", j)), []byte(strings.Repeat(fmt.Sprintf("v1.%d.0\n", i), 2000)), 0o644)
		}
		f25git(t, repoDir, "add", ".")
		f25git(t, repoDir, "commit", "-m", fmt.Sprintf("v1.%d.0", i))
		f25git(t, repoDir, "tag", fmt.Sprintf("v1.%d.0", i))
	}
	path := filepath.ToSlash(repoDir)

	bad := 0
	for round := 0; round < 30 && bad == 0; round++ {
		resolver := NewResolver(t.TempDir(), f25Dialer{}, nil)
		var wg sync.WaitGroup
		dirs := make([]string, nVersions)
		errs := make([]error, nVersions)
		for i := 0; i < nVersions; i++ {
			wg.Add(1)
			go func() {
				defer wg.Done()
				dirs[i], errs[i] = resolver.FetchProject(context.Background(), project.RequirementConfig{Path: path, Version: fmt.Sprintf("v1.%d.0", i)})
			}()
		}
		wg.Wait()
		for i := 0; i < nVersions; i++ {
			if errs[i] != nil {
				t.Logf("round %d: fetching v1.%d.0: %v", round, i, errs[i])
				bad++
				continue
			}
			got, err := os.ReadFile(filepath.Join(dirs[i], "dawn.toml"))
			if err != nil {
				t.Fatal(err)
			}
			want := fmt.Sprintf("version = 'v1.%d.0'", i)
			if !strings.Contains(string(got), want) {
				bad++
				t.Errorf("round %d: the download cache entry of p@v1.%d.0 holds another version's tree: %s", round, i, strings.TrimSpace(strings.SplitN(string(got), "dep = ", 2)[1]))
			}
		}
	}
}

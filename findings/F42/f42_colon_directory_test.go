package dawn

import (
	"os"
	"path/filepath"
	"testing"
)

// F42 (C06): the package walk joined every directory name onto the package path and dropped the error of label.Join.
// A directory whose name cannot be part of a label (it contains a ':') gave the empty package, and the recursive call
// sliced path[2:] of "": Load crashed with "slice bounds out of range" for a project whose load graph is acyclic (it
// need not even contain a build file in that directory).
//
// Place in the repository root (package dawn) and run: go test -count=1 -run TestF42 .
func TestF42DirectoryNameWithColon(t *testing.T) {
	root := t.TempDir()
	must := func(err error) {
		t.Helper()
		if err != nil {
			t.Fatal(err)
		}
	}
	must(os.WriteFile(filepath.Join(root, ".dawnconfig"), nil, 0o644))
	must(os.WriteFile(filepath.Join(root, "BUILD.dawn"), []byte("@target(default=True)\ndef all():\n    pass\n"), 0o644))
	must(os.MkdirAll(filepath.Join(root, "logs", "2026-10-04T12:00:00"), 0o755))

	defer func() {
		if x := recover(); x != nil {
			t.Fatalf("Load crashed on a project that contains a directory with a ':' in its name: %v", x)
		}
	}()
	proj, err := Load(root, &LoadOptions{})
	if err != nil {
		t.Fatalf("an acyclic project failed to load: %v", err)
	}
	if len(proj.Targets()) == 0 {
		t.Fatalf("no targets loaded")
	}
}

package pickle

import (
	"bytes"
	"testing"

	"go.starlark.net/starlark"
)

// F10: containers with more than 1000 elements (several batches) must round-trip at every nesting position.
func TestF10BatchedContainerNested(t *testing.T) {
	big := make([]starlark.Value, 2500)
	for i := range big {
		big[i] = starlark.MakeInt(i)
	}
	bigDict := starlark.NewDict(2500)
	bigSet := starlark.NewSet(2500)
	for i := 0; i < 2500; i++ {
		bigDict.SetKey(starlark.MakeInt(i), starlark.MakeInt(i))
		bigSet.Insert(starlark.MakeInt(i))
	}
	for name, inner := range map[string]starlark.Value{"list": starlark.NewList(big), "dict": bigDict, "set": bigSet} {
		outer := starlark.NewList([]starlark.Value{inner, starlark.String("tail")})
		var buf bytes.Buffer
		if err := NewEncoder(&buf, nil).Encode(outer); err != nil {
			t.Fatal(err)
		}
		v, err := NewDecoder(&buf, nil).Decode()
		if err != nil {
			t.Fatalf("%s: %v", name, err)
		}
		if eq, _ := starlark.Equal(v, outer); !eq {
			t.Errorf("%s: outer list of length 2 decodes with length %d", name, starlark.Len(v))
		}
	}
}

package dawn

import (
	"os"
	"path/filepath"
	"strings"
	"sync"
	"testing"

	"github.com/pgavlin/dawn/label"
	starlark_sh "github.com/pgavlin/dawn/lib/sh"
	"go.starlark.net/starlark"
)

// F41 (C18): the output of the processes a target runs goes through the target's line buffer, which holds an
// unterminated line back until its newline (or the end of the body) arrives; print() bypassed the buffer and went
// straight to the Print event. A body that runs `printf %s A B C` (which writes ABC without a newline) and then print("x") therefore delivered "x" before "ABC":
// the target's output was not delivered in order.
//
// Place in the repository root (package dawn) and run: go test -count=1 -run TestF41 .
type f41Events struct {
	discardEventsT
	m     sync.Mutex
	lines []string
}

func (e *f41Events) Print(l *label.Label, line string) {
	e.m.Lock()
	defer e.m.Unlock()
	e.lines = append(e.lines, line)
}

func TestF41PrintKeepsItsPlaceInTheOutput(t *testing.T) {
	root := t.TempDir()
	write := func(rel, text string) {
		t.Helper()
		if err := os.WriteFile(filepath.Join(root, rel), []byte(text), 0o644); err != nil {
			t.Fatal(err)
		}
	}
	write(".dawnconfig", "")
	write("BUILD.dawn", "@target(default=True)\ndef gen():\n    sh.exec(\"printf %s A B C\")\n    print(\"x\")\n    sh.exec(\"echo tail\")\n")

	events := &f41Events{}
	proj, err := Load(root, &LoadOptions{Events: events, Builtins: starlark.StringDict{"sh": starlark_sh.Module}})
	if err != nil {
		t.Fatal(err)
	}
	l, _ := label.Parse("//:default")
	if err := proj.Run(l, &RunOptions{}); err != nil {
		t.Fatal(err)
	}

	all := strings.Join(events.lines, "\n")
	abc, x, tail := strings.Index(all, "ABC"), strings.Index(all, "x"), strings.LastIndex(all, "tail")
	if abc < 0 || x < 0 || tail < 0 {
		t.Fatalf("output lost: %q", events.lines)
	}
	if !(abc < x && x < tail) {
		t.Fatalf("the target wrote ABC, then x, then tail, but its output was delivered as %q", events.lines)
	}
}

package dawn

import (
	"os"
	"path/filepath"
	"testing"

	"github.com/pgavlin/dawn/label"
	starlark_os "github.com/pgavlin/dawn/lib/os"
	starlark_sh "github.com/pgavlin/dawn/lib/sh"
	"github.com/stretchr/testify/require"
	starlark_json "go.starlark.net/lib/json"
	"go.starlark.net/starlark"
)

func f6build(t *testing.T, dir string) []testEvent {
	events := &testEvents{}
	proj, err := Load(dir, &LoadOptions{Events: events, Builtins: starlark.StringDict{"json": starlark_json.Module, "os": starlark_os.Module, "sh": starlark_sh.Module}})
	require.NoError(t, err)
	def, _ := label.Parse("//:listing")
	require.NoError(t, proj.Run(def, nil))
	return events.events
}

func f6executed(events []testEvent, lbl string) bool {
	for _, e := range events {
		if e["kind"] == "TargetEvaluating" && e["label"].(*label.Label).String() == lbl {
			return true
		}
	}
	return false
}

// F6: renaming a file inside a source directory changes the directory and must rebuild its consumers.
func TestF6RenameInsideSourceDirectory(t *testing.T) {
	dir := t.TempDir()
	require.NoError(t, os.WriteFile(filepath.Join(dir, ".dawnconfig"), nil, 0o644))
	require.NoError(t, os.MkdirAll(filepath.Join(dir, "d"), 0o755))
	require.NoError(t, os.WriteFile(filepath.Join(dir, "d", "a.txt"), []byte("alpha\n"), 0o644))
	require.NoError(t, os.WriteFile(filepath.Join(dir, "d", "b.txt"), []byte("beta\n"), 0o644))
	require.NoError(t, os.WriteFile(filepath.Join(dir, "BUILD.dawn"), []byte(`
@target(sources=["d"], generates=["listing.txt"])
def listing():
    sh.exec("ls d > listing.txt")
`), 0o644))

	require.True(t, f6executed(f6build(t, dir), "//:listing"))
	require.False(t, f6executed(f6build(t, dir), "//:listing"), "unchanged tree must not rebuild")

	require.NoError(t, os.Rename(filepath.Join(dir, "d", "a.txt"), filepath.Join(dir, "d", "c.txt")))
	if !f6executed(f6build(t, dir), "//:listing") {
		out, _ := os.ReadFile(filepath.Join(dir, "listing.txt"))
		t.Fatalf("d/a.txt was renamed to d/c.txt but //:listing was not rebuilt; stale listing.txt:\n%s", out)
	}
}

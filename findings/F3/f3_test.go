package util

import "testing"

// F3: a set of globs matches a path only if one glob matches the whole path.
func TestF3GlobSetAnchoring(t *testing.T) {
	re, err := CompileGlobs([]string{"*.go", "*.c"})
	if err != nil {
		t.Fatal(err)
	}
	for path, want := range map[string]bool{"a.go": true, "a.c": true, "a.gox": false, "x/a.c": false, "a.go/zzz": false, "a.h": false} {
		if got := re.MatchString(path); got != want {
			t.Errorf("MatchString(%q) = %v, want %v", path, got, want)
		}
	}
}

package main

// F31 (C18, C15): jsonRenderer.TargetEvaluating encodes the environment diff with Starlark's json.encode, discards the
// error and asserts the (nil) result to starlark.String. json.encode fails for ordinary values - a dict with non-string
// keys, a NaN or infinite float - so `dawn build --json` dies with a Go panic on a runner goroutine as soon as a target is
// re-evaluated because such a global changed: no 'evaluating', no terminal event, no run-done reach the consumer of the
// stream. A one-bit corruption of a record (1.5 -> NaN) has the same effect.
//
// Place in cmd/dawn and run: go test -count=1 -run TestF31 ./cmd/dawn

import (
	"bytes"
	"encoding/json"
	"strings"
	"testing"

	"github.com/pgavlin/dawn"
	"github.com/pgavlin/dawn/diff"
	"github.com/pgavlin/dawn/label"
	"go.starlark.net/starlark"
)

func TestF31JSONRendererPanicsOnUnencodableDiff(t *testing.T) {
	oldEnv, newEnv := starlark.NewDict(1), starlark.NewDict(1)
	oldG, newG := starlark.NewDict(1), starlark.NewDict(1)
	oldG.SetKey(starlark.MakeInt(1), starlark.String("a")) // TABLE = {1: "a"} in a BUILD file ...
	newG.SetKey(starlark.MakeInt(1), starlark.String("b")) // ... edited to {1: "b"}
	oldEnv.SetKey(starlark.String("global values"), oldG)
	newEnv.SetKey(starlark.String("global values"), newG)
	d, err := diff.DiffDepth(oldEnv, newEnv, 1000)
	if err != nil || d == nil {
		t.Fatalf("diff: %v %v", d, err)
	}

	var out bytes.Buffer
	r := &jsonRenderer{enc: json.NewEncoder(&out), next: discardRendererT{dawn.DiscardEvents}}
	l, _ := label.Parse("//:gen")

	defer func() {
		if x := recover(); x != nil {
			t.Errorf("the JSON renderer panicked on a well-formed evaluating event: %v (stream so far: %q)", x, out.String())
		}
	}()
	r.TargetEvaluating(l, "global values changed", d)
	if !strings.Contains(out.String(), "TargetEvaluating") {
		t.Errorf("no evaluating event was written: %q", out.String())
	}
}

// F17 (C18), crash form: with the terminal renderer as the project's Events, run(callback=...) in the REPL
// delivers the target's output lines to the renderer although the target's evaluating event went to the
// callback; statusRenderer.Print dereferences the missing per-target state and the process dies.
//
// Placement: cmd/dawn (package main). Run:  go test -count=1 -run TestF17 ./cmd/dawn/
package main

import (
	"io"
	"os"
	"path/filepath"
	"testing"

	"github.com/pgavlin/dawn"
	"github.com/pgavlin/dawn/label"
	starlark_sh "github.com/pgavlin/dawn/lib/sh"
	"go.starlark.net/starlark"
)

func TestF17StatusRendererCrash(t *testing.T) {
	dir := t.TempDir()
	os.WriteFile(filepath.Join(dir, ".dawnconfig"), nil, 0o600)
	os.WriteFile(filepath.Join(dir, "BUILD.dawn"), []byte("@target()\ndef hello():\n    sh.exec(\"echo out-line\")\n"), 0o600)
	r := &statusRenderer{targets: map[string]*target{}, stdout: io.Discard}
	proj, err := dawn.Load(dir, &dawn.LoadOptions{Events: r, Builtins: starlark.StringDict{"sh": starlark_sh.Module}})
	if err != nil {
		t.Fatal(err)
	}
	root, _ := label.Parse("//:BUILD.dawn")
	thread, globals := proj.REPLEnv(os.Stdout, root)
	cb := starlark.NewBuiltin("cb", func(*starlark.Thread, *starlark.Builtin, starlark.Tuple, []starlark.Tuple) (starlark.Value, error) {
		return starlark.None, nil
	})
	// must not crash
	starlark.Call(thread, globals["run"], starlark.Tuple{starlark.String("//:hello")}, []starlark.Tuple{{starlark.String("callback"), cb}})
}

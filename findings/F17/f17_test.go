// F16 (C18): the Events implementation behind run(callback=...) reports a failed target with kind
// "TargetUpToDate". F17 (C18): the output of targets built by run(callback=...) is not delivered to the
// callback but to the project's load-time Events, outside any evaluating..completion window there.
//
// Placement: repository root (package dawn). Run:  go test -count=1 -run 'TestF16|TestF17' .
package dawn

import (
	"os"
	"path/filepath"
	"sync"
	"testing"

	"github.com/pgavlin/dawn/label"
	starlark_sh "github.com/pgavlin/dawn/lib/sh"
	"go.starlark.net/starlark"
	"go.starlark.net/starlarkstruct"
)

type f16Default struct {
	discardEventsT
	m      sync.Mutex
	prints []string
}

func (e *f16Default) Print(l *label.Label, line string) {
	e.m.Lock()
	defer e.m.Unlock()
	e.prints = append(e.prints, l.String()+": "+line)
}

func f16Run(t *testing.T, build, target string) (kinds []string, lines []string, def *f16Default) {
	dir := t.TempDir()
	os.WriteFile(filepath.Join(dir, ".dawnconfig"), nil, 0o600)
	os.WriteFile(filepath.Join(dir, "BUILD.dawn"), []byte(build), 0o600)
	def = &f16Default{}
	proj, err := Load(dir, &LoadOptions{Events: def, Builtins: starlark.StringDict{"sh": starlark_sh.Module}})
	if err != nil {
		t.Fatal(err)
	}
	root, _ := label.Parse("//:BUILD.dawn")
	thread, globals := proj.REPLEnv(os.Stdout, root)
	var m sync.Mutex
	cb := starlark.NewBuiltin("cb", func(_ *starlark.Thread, _ *starlark.Builtin, args starlark.Tuple, _ []starlark.Tuple) (starlark.Value, error) {
		ev := args[0].(*starlarkstruct.Struct)
		kind, _ := ev.Attr("kind")
		lbl, _ := ev.Attr("label")
		m.Lock()
		defer m.Unlock()
		if lbl != nil && string(lbl.(starlark.String)) == target {
			kinds = append(kinds, string(kind.(starlark.String)))
			if line, err := ev.Attr("line"); err == nil {
				lines = append(lines, string(line.(starlark.String)))
			}
		}
		return starlark.None, nil
	})
	starlark.Call(thread, globals["run"], starlark.Tuple{starlark.String(target)}, []starlark.Tuple{{starlark.String("callback"), cb}})
	return kinds, lines, def
}

func TestF16FailedTargetKind(t *testing.T) {
	kinds, _, _ := f16Run(t, "@target()\ndef boom():\n    fail(\"no\")\n", "//:boom")
	want := []string{"TargetEvaluating", "TargetFailed"}
	if len(kinds) != 2 || kinds[0] != want[0] || kinds[1] != want[1] {
		t.Fatalf("events seen by the run callback for a failing target: %v, want %v", kinds, want)
	}
}

func TestF17OutputReachesTheRunObserver(t *testing.T) {
	kinds, lines, def := f16Run(t, "@target()\ndef hello():\n    sh.exec(\"echo out-line\")\n", "//:hello")
	found := false
	for _, l := range lines {
		if l == "out-line" {
			found = true
		}
	}
	if !found {
		t.Errorf("the run callback saw events %v but not the target's output (lines %q)", kinds, lines)
	}
	if len(def.prints) != 0 {
		t.Errorf("the load-time Events received output of a target whose evaluating/completion events went elsewhere: %q", def.prints)
	}
}

package runner

// F37 (C04): when the cycle check of a dependency request finds a cycle, EvaluateTargets returns at once and fills the
// result of *every* requested dependency with the cyclic-dependency error. A requested dependency that is not on the
// cycle and has already been started is neither waited for nor reported with its own outcome: the requester continues
// while that dependency is still running, and is told that it failed with "cyclic dependency" although it succeeds.
// C04: "a target continues past its dependency request only after every requested dependency has finished; the outcome
// it is handed for each dependency is that dependency's actual outcome".
//
// Place in runner/ and run: go test -count=1 -run TestF37 ./runner

import (
	"sync/atomic"
	"testing"
	"time"
)

func TestF37CycleReturnDoesNotWaitForOtherDependencies(t *testing.T) {
	var slowDone atomic.Bool
	var continuedEarly atomic.Bool
	var slowOutcome atomic.Value

	slow := testTarget(func(engine Engine) error {
		time.Sleep(100 * time.Millisecond)
		slowDone.Store(true)
		return nil
	})
	app := testTarget(func(engine Engine) error {
		results := engine.EvaluateTargets("slow", "app") // app depends on itself: a cycle
		if !slowDone.Load() {
			continuedEarly.Store(true)
		}
		if results[0].Error != nil {
			slowOutcome.Store(results[0].Error.Error())
		} else {
			slowOutcome.Store("")
		}
		return results[1].Error
	})

	err := Run(testTargets{"slow": slow, "app": app}, "app")
	if err == nil {
		t.Fatal("the self-dependency of app must be reported")
	}
	time.Sleep(200 * time.Millisecond) // let slow finish before the test ends
	if continuedEarly.Load() {
		t.Errorf("app continued past its dependency request while its dependency slow was still running")
	}
	if got, _ := slowOutcome.Load().(string); got != "" {
		t.Errorf("app was handed %q as the outcome of slow, which is not on the cycle and succeeds", got)
	}
}

package mvs

// F35 (C10): FetchProject stages a download in os.TempDir() and then renames the staged tree into the download cache.
// os.Rename does not cross file systems: when the temporary directory and the cache are on different ones (TMPDIR on a
// tmpfs, the cache under $HOME - an everyday Linux setup) every cold-cache resolution fails with "invalid cross-device
// link", while the same requirement graph resolves fine once the cache is warm: the answer depends on the state of the
// download cache.
//
// Place in internal/mvs and run: go test -count=1 -run TestF35 ./internal/mvs   (needs /dev/shm on another file system
// than the test's temporary directory; skipped otherwise)

import (
	"context"
	"os"
	"path"
	"syscall"
	"testing"

	"github.com/pgavlin/dawn/internal/project"
	"golang.org/x/mod/module"
)

func TestF35StagingOnAnotherFileSystem(t *testing.T) {
	cache := t.TempDir()
	var a, b syscall.Stat_t
	if syscall.Stat("/dev/shm", &a) != nil || syscall.Stat(cache, &b) != nil || a.Dev == b.Dev {
		t.Skip("needs /dev/shm on a file system other than the test's temporary directory")
	}
	stage, err := os.MkdirTemp("/dev/shm", "f35-*")
	if err != nil {
		t.Skip(err)
	}
	defer os.RemoveAll(stage)
	t.Setenv("TMPDIR", stage)

	const sandbox = "example.com/f35"
	lib := module.Version{Path: path.Join(sandbox, "lib"), Version: "v1.0.0"}
	dialer := testDialer{repos: map[string]*testRepository{
		sandbox: {
			path:       sandbox,
			defaultRef: "main",
			refs:       map[string]string{"main": "1", "lib/v1.0.0": "1"},
			head:       testRevisions([]map[string]*mvsProject{{"lib": {Name: "lib", Version: lib}}}),
		},
	}}
	resolver := NewResolver(cache, dialer, nil)
	dir, err := resolver.FetchProject(context.Background(), project.RequirementConfig{Path: lib.Path, Version: lib.Version})
	if err != nil {
		t.Fatalf("a cold-cache fetch fails when the temporary directory is on another file system than the cache: %v", err)
	}
	if _, err := os.Stat(path.Join(dir, "dawn.toml")); err != nil {
		t.Fatalf("the fetched project is incomplete: %v", err)
	}
}

package mvs

// F29 (C11): resolveRefQuery looks for "the closest tagged version" on the history of the revision a ref points at,
// but its `break` only leaves the inner loop over the versions: the walk over the ancestors goes on and every older
// tagged ancestor overwrites the match, so the *oldest* tagged ancestor wins. A ref that is ahead of every release
// (main, two commits after v1.3.0) resolves to a pseudo-version based on v1.1.0, which sorts below the release the
// project is already at: `get p@main` - an upgrade by ref - lowers p. A ref that points exactly at a tagged revision
// resolves to a pseudo-version instead of the tag whenever an older ancestor is tagged too.
//
// Place in internal/mvs and run: go test -count=1 -run TestF29 ./internal/mvs

import (
	"context"
	"path"
	"testing"

	"github.com/pgavlin/dawn/internal/project"
	"golang.org/x/mod/module"
	"golang.org/x/mod/semver"
)

func TestF29UpgradeByRefPicksTheOldestTaggedAncestor(t *testing.T) {
	const sandbox = "example.com/f29"
	p := func(minor string) module.Version {
		return module.Version{Path: path.Join(sandbox, "p"), Version: "v1." + minor + ".0"}
	}
	proj := func(minor string) map[string]*mvsProject {
		return map[string]*mvsProject{"p": {Name: "p", Version: p(minor)}}
	}
	dialer := testDialer{repos: map[string]*testRepository{
		sandbox: {
			path:       sandbox,
			defaultRef: "main",
			refs: map[string]string{
				"p/v1.1.0": "1",
				"p/v1.2.0": "2",
				"p/v1.3.0": "3",
				"rel":      "3", // a branch that points exactly at the v1.3.0 revision
				"main":     "5", // two commits after v1.3.0
			},
			head: testRevisions([]map[string]*mvsProject{proj("1"), proj("2"), proj("3"), proj("3"), proj("3")}),
		},
	}}
	root := &project.Config{
		Name:         "root",
		Requirements: map[string]project.RequirementConfig{"p": {Path: path.Join(sandbox, "p"), Version: "v1.2.0"}},
	}

	t.Run("ref ahead of every release", func(t *testing.T) {
		resolver := NewResolver(t.TempDir(), dialer, nil)
		reqs, err := Get(context.Background(), root, resolver, path.Join(sandbox, "p")+"@main")
		if err != nil {
			t.Fatal(err)
		}
		got := reqs["p"].Version
		t.Logf("get p@main from v1.2.0: p is now at %v", got)
		if semver.Compare(got, "v1.3.0") <= 0 {
			t.Errorf("main is two commits after v1.3.0, but `get p@main` leaves p at %v, which is not above v1.3.0 (from v1.2.0 it is even a downgrade): the pseudo-version is based on the oldest tagged ancestor", got)
		}
	})
	t.Run("ref at a tagged revision", func(t *testing.T) {
		resolver := NewResolver(t.TempDir(), dialer, nil)
		reqs, err := Get(context.Background(), root, resolver, path.Join(sandbox, "p")+"@rel")
		if err != nil {
			t.Fatal(err)
		}
		if got := reqs["p"].Version; got != "v1.3.0" {
			t.Errorf("rel points exactly at the revision tagged v1.3.0, but `get p@rel` resolves to %v", got)
		}
	})
}

package mvs

// F36, end to end: `get x@latest` against a repository whose newest tag carries build metadata writes a dawn.toml that
// does not load.
//
// Place in internal/mvs and run: go test -count=1 -run TestF36 ./internal/mvs

import (
	"context"
	"os"
	"os/exec"
	"path/filepath"
	"testing"

	"github.com/pgavlin/dawn/internal/project"
	"github.com/pgavlin/dawn/internal/vcs"
)

type f36Dialer struct{}

func (f36Dialer) dialRepository(ctx context.Context, kind, address string) (vcs.Repository, error) {
	return vcs.DialGitRepository(ctx, address, &vcs.DialGitOptions{AllowFile: true})
}

func TestF36GetWritesAnUnloadableConfig(t *testing.T) {
	if _, err := exec.LookPath("git"); err != nil {
		t.Skip("git not available")
	}
	dir := t.TempDir()
	git := func(args ...string) {
		cmd := exec.Command("git", args...)
		cmd.Dir = dir
		cmd.Env = append(os.Environ(), "GIT_AUTHOR_NAME=a", "GIT_AUTHOR_EMAIL=a@b", "GIT_COMMITTER_NAME=a", "GIT_COMMITTER_EMAIL=a@b")
		if out, err := cmd.CombinedOutput(); err != nil {
			t.Fatalf("git %v: %v\n%s", args, err, out)
		}
	}
	git("init", "-b", "main")
	os.WriteFile(filepath.Join(dir, "dawn.toml"), []byte("[project]\nname='x'\n"), 0o644)
	git("add", ".")
	git("commit", "-m", "one")
	git("tag", "v1.2.0")
	git("tag", "v1.4.0+build7")

	root := &project.Config{Name: "root"}
	reqs, err := Get(context.Background(), root, NewResolver(t.TempDir(), f36Dialer{}, nil), filepath.ToSlash(dir)+"@latest")
	if err != nil {
		t.Fatal(err)
	}
	root.Requirements = reqs
	file := filepath.Join(t.TempDir(), "dawn.toml")
	if err := project.WriteConfigFile(file, root); err != nil {
		t.Fatal(err)
	}
	if _, err := project.LoadConfigFile(file); err != nil {
		written, _ := os.ReadFile(file)
		t.Errorf("the dawn.toml written after `get x@latest` does not load: %v\n%s", err, written)
	}
}

package vcs

// F36 (C19, C11): the configuration loader accepts a requirement version only if it is valid *and* canonical
// (semver.Canonical(v) == v), but DialGitRepository lists every tag whose last element is merely valid: v1.3,
// v2, v1.0.0+build7. `dawn get x@latest` (or a range, or an upgrade) can therefore resolve to such a version, get writes
// it into dawn.toml, and the next load of that file fails with "invalid version": one requirement edit leaves the project
// unloadable.
//
// Place in internal/vcs and run: go test -count=1 -run TestF36 ./internal/vcs

import (
	"context"
	"os"
	"os/exec"
	"path/filepath"
	"testing"

	"golang.org/x/mod/semver"
)

func TestF36ListedVersionsAreLoadable(t *testing.T) {
	if _, err := exec.LookPath("git"); err != nil {
		t.Skip("git not available")
	}
	dir := t.TempDir()
	git := func(args ...string) {
		cmd := exec.Command("git", args...)
		cmd.Dir = dir
		cmd.Env = append(os.Environ(), "GIT_AUTHOR_NAME=a", "GIT_AUTHOR_EMAIL=a@b", "GIT_COMMITTER_NAME=a", "GIT_COMMITTER_EMAIL=a@b")
		if out, err := cmd.CombinedOutput(); err != nil {
			t.Fatalf("git %v: %v\n%s", args, err, out)
		}
	}
	git("init", "-b", "main")
	os.WriteFile(filepath.Join(dir, "dawn.toml"), []byte("[project]\nname='x'\n"), 0o644)
	git("add", ".")
	git("commit", "-m", "one")
	for _, tag := range []string{"v1.2.0", "v1.3", "v1.4.0+build7", "v2"} {
		git("tag", tag)
	}
	repo, err := DialGitRepository(context.Background(), filepath.ToSlash(dir), &DialGitOptions{AllowFile: true})
	if err != nil {
		t.Fatal(err)
	}
	versions, err := repo.Versions(context.Background())
	if err != nil {
		t.Fatal(err)
	}
	for _, v := range versions {
		// the predicate of internal/project.LoadConfigBytes
		if !semver.IsValid(v.Version.Version) || semver.Canonical(v.Version.Version) != v.Version.Version {
			t.Errorf("the repository lists version %q (tag of %v): a requirement on it can be written to dawn.toml by get, but the loader rejects it as an invalid version", v.Version.Version, v.RevisionID[:7])
		}
	}
}

package mvs

// F18 (C10): the on-disk download cache is keyed by TrimPathVersion(path)@version, which drops the major-version
// suffix of the path: the requirement {r@v2, v2.1.0} and the (mis-declared) requirement {r, v2.1.0} share one cache
// directory. With a cold cache the second one is an error ("no such version"); once r@v2 v2.1.0 has been downloaded
// it resolves, and BuildList answers with a list. The answer depends on the state of the download cache.
//
// Placement: internal/mvs (package mvs). Run:  go test -count=1 -run TestF18 ./internal/mvs/

import (
	"context"
	"testing"

	"github.com/pgavlin/dawn/internal/project"
	"golang.org/x/mod/module"
)

func f18Dialer() testDialer {
	const sandbox = "github.com/pgavlin/sandbox"
	mv := func(p, v string) module.Version { return module.Version{Path: sandbox + "/" + p, Version: v} }
	return testDialer{repos: map[string]*testRepository{
		sandbox: {
			path:       sandbox,
			defaultRef: "main",
			refs:       map[string]string{"main": "1", "r/v2.1.0": "1", "x/v1.0.0": "1"},
			head: testRevisions([]map[string]*mvsProject{{
				"r": {Version: mv("r@v2", "v2.1.0"), Requirements: []module.Version{mv("x", "v1.0.0")}},
				"x": {Version: mv("x", "v1.0.0")},
			}}),
		},
	}}
}

func TestF18CacheStateChangesTheAnswer(t *testing.T) {
	good, err := project.LoadConfigBytes([]byte("[requirements]\nr = {path = \"github.com/pgavlin/sandbox/r@v2\", version = \"v2.1.0\"}\n"))
	if err != nil {
		t.Fatal(err)
	}
	bad, err := project.LoadConfigBytes([]byte("[requirements]\nr = {path = \"github.com/pgavlin/sandbox/r\", version = \"v2.1.0\"}\n"))
	if err != nil {
		t.Fatal(err)
	}
	cache := t.TempDir()
	// cold cache
	_, coldErr := BuildList(context.Background(), bad, NewResolver(cache, f18Dialer(), nil))
	// warm the cache with the well-formed requirement
	if _, err := BuildList(context.Background(), good, NewResolver(cache, f18Dialer(), nil)); err != nil {
		t.Fatalf("well-formed requirement: %v", err)
	}
	warm, warmErr := BuildList(context.Background(), bad, NewResolver(cache, f18Dialer(), nil))
	if (coldErr == nil) != (warmErr == nil) {
		t.Fatalf("the same root resolves differently with a cold and a warm download cache: cold: %v; warm: %v (%v)", coldErr, warmErr, warm)
	}
}

// F15 (C18): (*lineWriter).Flush delivers the trailing partial line but leaves it in the buffer.
// A target that is evaluated again on the same loaded Project (REPL `run`, or any second Project.Run
// of an always-target) has the undelivered-looking tail of its previous evaluation glued in front of
// the first line of the next one: output is delivered twice.
//
// Placement: repository root (package dawn). Run:
//   go test -count=1 -run TestF15 .
package dawn

import (
	"os"
	"path/filepath"
	"strings"
	"sync"
	"testing"

	"github.com/pgavlin/dawn/label"
	starlark_sh "github.com/pgavlin/dawn/lib/sh"
	"go.starlark.net/starlark"
)

type f15Events struct {
	discardEventsT
	m     sync.Mutex
	lines []string
}

func (e *f15Events) Print(l *label.Label, line string) {
	e.m.Lock()
	defer e.m.Unlock()
	if l != nil && l.String() == "//:tail" && !strings.HasPrefix(line, "printf ") {
		e.lines = append(e.lines, line)
	}
}

func TestF15FlushLeavesTail(t *testing.T) {
	dir := t.TempDir()
	if err := os.WriteFile(filepath.Join(dir, ".dawnconfig"), nil, 0o600); err != nil {
		t.Fatal(err)
	}
	build := "@target(always=True)\ndef tail():\n    sh.exec(\"printf partial\")\n"
	if err := os.WriteFile(filepath.Join(dir, "BUILD.dawn"), []byte(build), 0o600); err != nil {
		t.Fatal(err)
	}
	events := &f15Events{}
	proj, err := Load(dir, &LoadOptions{Events: events, Builtins: starlark.StringDict{"sh": starlark_sh.Module}})
	if err != nil {
		t.Fatal(err)
	}
	l, _ := label.Parse("//:tail")
	for i := 0; i < 2; i++ {
		if err := proj.Run(l, nil); err != nil {
			t.Fatal(err)
		}
	}
	want := []string{"partial", "partial"}
	if strings.Join(events.lines, "|") != strings.Join(want, "|") {
		t.Fatalf("output of two evaluations: got %q, want %q", events.lines, want)
	}
}

func TestF15LineWriterFlushTwice(t *testing.T) {
	events := &f15Events{}
	l, _ := label.Parse("//:tail")
	w := newLineWriter(l, events)
	w.Write([]byte("abc"))
	w.Flush()
	w.Write([]byte("def\n"))
	w.Flush()
	if strings.Join(events.lines, "|") != "abc|def" {
		t.Fatalf("got %q, want [abc def]", events.lines)
	}
}

package dawn

import (
	"os"
	"path/filepath"
	"strings"
	"testing"
)

// F44 (C06): Project.load returned the error of the first failed module that Go's randomised map iteration over
// proj.modules happened to meet. A project whose load graph is cyclic and that also contains an unrelated module that
// fails to load was therefore reported, in most runs, with the unrelated error only: a cyclic load graph did not
// "always fail with a cyclic-dependency error".
//
// Place in the repository root (package dawn) and run: go test -count=1 -run TestF44 .
func TestF44CycleReportedNextToAnotherFailure(t *testing.T) {
	root := t.TempDir()
	write := func(rel, text string) {
		t.Helper()
		p := filepath.Join(root, rel)
		if err := os.MkdirAll(filepath.Dir(p), 0o755); err != nil {
			t.Fatal(err)
		}
		if err := os.WriteFile(p, []byte(text), 0o644); err != nil {
			t.Fatal(err)
		}
	}
	write(".dawnconfig", "")
	write("a/BUILD.dawn", "load(\"//b\", \"x\")\ny = 1\n")
	write("b/BUILD.dawn", "load(\"//a\", \"y\")\nx = 1\n")
	write("c/BUILD.dawn", "fail(\"package c is broken\")\n")

	missing := 0
	const rounds = 60
	for i := 0; i < rounds; i++ {
		_, err := Load(root, &LoadOptions{})
		if err == nil {
			t.Fatalf("round %d: a cyclic load graph loaded successfully", i)
		}
		if !strings.Contains(err.Error(), "cyclic") {
			missing++
			if missing == 1 {
				t.Logf("round %d: Load failed with %q only", i, err)
			}
		}
	}
	if missing != 0 {
		t.Fatalf("%d of %d loads of a cyclic load graph failed without a cyclic-dependency error", missing, rounds)
	}
}

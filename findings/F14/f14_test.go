package dawn

import (
	"os"
	"path/filepath"
	"strings"
	"testing"

	"github.com/pgavlin/dawn/label"
	"github.com/stretchr/testify/require"
)

// F14: the label() builtin must return canonical labels: label("docs") for a directory at the project root is
// "//docs", and whatever it returns must survive Parse + String unchanged.
func TestF14LabelBuiltinRootDirectory(t *testing.T) {
	dir := t.TempDir()
	require.NoError(t, os.WriteFile(filepath.Join(dir, ".dawnconfig"), nil, 0o644))
	require.NoError(t, os.MkdirAll(filepath.Join(dir, "docs"), 0o755))
	require.NoError(t, os.WriteFile(filepath.Join(dir, "BUILD.dawn"), []byte("print(label(\"docs\"))\n"), 0o644))

	events := &testEvents{}
	_, err := Load(dir, &LoadOptions{Events: events})
	require.NoError(t, err)

	var printed string
	for _, e := range events.events {
		if e["kind"] == "Print" {
			printed = strings.TrimSpace(e["line"].(string))
		}
	}
	require.NotEmpty(t, printed)
	l, err := label.Parse(printed)
	require.NoError(t, err)
	if l.String() != printed || printed != "//docs" {
		t.Fatalf("label(\"docs\") = %q; re-parsed and printed: %q; want \"//docs\"", printed, l.String())
	}
}

package dawn

import (
	"os"
	"path/filepath"
	"sync"
	"testing"

	"github.com/pgavlin/dawn/diff"
	"github.com/pgavlin/dawn/label"
	starlark_sh "github.com/pgavlin/dawn/lib/sh"
	"go.starlark.net/starlark"
)

// F43 (C03): a target that is re-executed for a reason that is not itself persistent - its generated file was deleted,
// or the build was forced (-B) - kept the record of its last successful execution on disk while its body ran. If the
// process dies inside the body, the next build finds the record intact, the inputs unchanged and the (half-written)
// output present: the target is remembered as up to date and no later build ever completes it.
//
// The test takes a copy of the project directory from inside the body, right after the first half of the output was
// written - exactly the disk state a process killed at that point leaves behind - and builds in the copy.
//
// Place in the repository root (package dawn) and run: go test -count=1 -run TestF43 .
type f43Events struct {
	discardEventsT
	m         sync.Mutex
	evaluated []string
}

func (e *f43Events) TargetEvaluating(l *label.Label, reason string, d diff.ValueDiff) {
	e.m.Lock()
	defer e.m.Unlock()
	e.evaluated = append(e.evaluated, l.String()+" ("+reason+")")
}

func TestF43InterruptedRegenerationIsNotRemembered(t *testing.T) {
	base := t.TempDir()
	root, snapshot := filepath.Join(base, "proj"), filepath.Join(base, "snapshot")
	if err := os.MkdirAll(root, 0o755); err != nil {
		t.Fatal(err)
	}
	write := func(rel, text string) {
		t.Helper()
		if err := os.WriteFile(filepath.Join(root, rel), []byte(text), 0o644); err != nil {
			t.Fatal(err)
		}
	}
	write(".dawnconfig", "")
	// the body writes out.txt in two halves; when the marker file exists it copies the project in between
	write("BUILD.dawn", "@target(default=True, generates=[\"out.txt\"])\ndef gen():\n"+
		"    sh.exec(\"echo first half > out.txt\")\n"+
		"    sh.exec(\"if [ -e ../take-snapshot ]; then cp -a . ../snapshot; fi\")\n"+
		"    sh.exec(\"echo second half >> out.txt\")\n")

	build := func(dir string) []string {
		t.Helper()
		events := &f43Events{}
		proj, err := Load(dir, &LoadOptions{Events: events, Builtins: starlark.StringDict{"sh": starlark_sh.Module}})
		if err != nil {
			t.Fatalf("load: %v", err)
		}
		l, _ := label.Parse("//:default")
		if err := proj.Run(l, &RunOptions{}); err != nil {
			t.Fatalf("run: %v", err)
		}
		return events.evaluated
	}

	build(root) // a complete, successful build
	// the generated file is deleted; the rebuild is "interrupted" (snapshot) after the first half was rewritten
	if err := os.Remove(filepath.Join(root, "out.txt")); err != nil {
		t.Fatal(err)
	}
	if err := os.WriteFile(filepath.Join(base, "take-snapshot"), nil, 0o644); err != nil {
		t.Fatal(err)
	}
	build(root)
	if err := os.Remove(filepath.Join(base, "take-snapshot")); err != nil {
		t.Fatal(err)
	}
	if _, err := os.Stat(snapshot); err != nil {
		t.Fatalf("no snapshot taken: %v", err)
	}
	got, _ := os.ReadFile(filepath.Join(snapshot, "out.txt"))
	if string(got) != "first half\n" {
		t.Fatalf("snapshot not taken inside the body: out.txt = %q", got)
	}
	evaluated := build(snapshot)
	got, _ = os.ReadFile(filepath.Join(snapshot, "out.txt"))
	if string(got) != "first half\nsecond half\n" {
		t.Fatalf("the build after an interruption inside the body executed %v and left out.txt = %q; an uninterrupted build produces %q", evaluated, got, "first half\nsecond half\n")
	}
}

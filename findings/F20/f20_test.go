package dawn

import (
	"os"
	"path/filepath"
	"testing"

	"github.com/pgavlin/dawn/label"
)

// F20: a target function that references a function with a required keyword-only parameter cannot be
// fingerprinted: starlark's Function.Env reports the internal "mandatory" sentinel as the parameter's default value,
// the encoder has no encoding for it and the host pickler declines it, so every build of the target fails with
// "cannot pickle value of type mandatory" although the project loads and the function is valid Starlark.
//
// Place in the repository root (package dawn) and run: go test -count=1 -run TestF20 .
func TestF20RequiredKeywordOnlyParameter(t *testing.T) {
	root := t.TempDir()
	write := func(rel, text string) {
		p := filepath.Join(root, rel)
		if err := os.MkdirAll(filepath.Dir(p), 0o755); err != nil {
			t.Fatal(err)
		}
		if err := os.WriteFile(p, []byte(text), 0o644); err != nil {
			t.Fatal(err)
		}
	}
	write(".dawnconfig", "")
	write("BUILD.dawn", "def tool(args, *, cwd):\n    return (args, cwd)\n\n@target()\ndef t():\n    tool([], cwd=\".\")\n")

	proj, err := Load(root, &LoadOptions{})
	if err != nil {
		t.Fatalf("load: %v", err)
	}
	l, err := label.Parse("//:t")
	if err != nil {
		t.Fatal(err)
	}
	if err := proj.Run(l, nil); err != nil {
		t.Errorf("a valid target cannot be built: %v", err)
	}
	// and an edit of the helper must still be noticed: the fingerprint covers its body
	tgt, err := proj.Target(l)
	if err != nil {
		t.Fatal(err)
	}
	if _, err := functionEnv(tgt.(*function).function); err != nil {
		t.Errorf("the environment of //:t cannot be fingerprinted: %v", err)
	}
}

// The same holds for the iterable views of strings and bytes ("…".codepoints(), b"…".elems()): they are values
// (they can be bound to a global and referenced by a target function) but are neither a Sequence nor anything else the
// encoder has a case for.
func TestF20IterableViews(t *testing.T) {
	root := t.TempDir()
	write := func(rel, text string) {
		p := filepath.Join(root, rel)
		if err := os.MkdirAll(filepath.Dir(p), 0o755); err != nil {
			t.Fatal(err)
		}
		if err := os.WriteFile(p, []byte(text), 0o644); err != nil {
			t.Fatal(err)
		}
	}
	write(".dawnconfig", "")
	write("BUILD.dawn", "CP = \"abc\".codepoints()\nBE = b\"abc\".elems()\n\n@target()\ndef t():\n    print([c for c in CP], [b for b in BE])\n")

	proj, err := Load(root, &LoadOptions{})
	if err != nil {
		t.Fatalf("load: %v", err)
	}
	l, _ := label.Parse("//:t")
	if err := proj.Run(l, nil); err != nil {
		t.Errorf("a valid target cannot be built: %v", err)
	}
}

package dawn

import "testing"

func TestF4Cycle3(t *testing.T) {
	pt := projectTest{path: "testdata/f4-cycle3", loadErr: "cyclic dependency"}
	pt.run(t)
}

func TestF4Shared(t *testing.T) {
	for i := 0; i < 200; i++ {
		pt := projectTest{path: "testdata/f4-shared", validate: func(t *testing.T, _ string, _ []testEvent) {}}
		pt.run(t)
	}
}
